/-
C02 (and the message part of C04) for messages that contain track fields (field.Track1 /
Track2 / Track3): Unpack never panics, every accepted byte string re-packs, and re-encoding
is a fixed point. Model: Model/TrackMessage.lean (`TMsgSpec`, `TMsg`).

As in Props/C01TrackMsg.lean everything is reduced to the message model without track
fields (`TMsgSpec.base`: every track field read as the String primitive of its wire layer):

  * `tmsg_unpack_no_panic` — unconditional (no coherence, any bytes): induction over
    `TMsgSpec.scan` with the invariant "offset ≤ |src|", exactly as
    `MsgSpec.unpack_ne_panic`; the field step is `field_unpack_base` + C04's
    `field_unpack_no_panic` / `field_unpack_read_le` on the base field.
  * `tunpack_sim` — the converse of `C01TrackMsg.tunpack_of_base`: whenever Unpack succeeds
    with `(tm, n)`, Unpack under the base spec succeeds on the same bytes with `(bm, n)`, the
    same MTI, and `tm.fields` is `bm.fields` lifted (`liftAll`: ordinary values unchanged,
    every track value what its parser stored for the text in `bm`). `bm` is therefore "the
    message with, for every track field, the text its parser was given". `tunpack_ok_iff`
    is the two directions together; `tunpack_err_of_base` covers the failing runs.
  * `tmsg_repack_partial` / `tmsg_repack_fixed_point_partial` — C02.

The full statement `tmsg_repackStatement` (no exclusion) is FALSE (`tmsg_repack_witness`).
What `tmsg_repack_partial` excludes, through `AcceptedT` on the base reading `bm` of the
accepted bytes, and why:

  * KF2 (Props/C02.lean, `PrimSpec.NotKF2`): under the EBCDIC-1047 encoder a wire byte may
    decode to a non-ASCII rune (two UTF-8 bytes); such a value packs to other bytes. It is
    excluded for the MTI and every ordinary primitive through `AcceptedAll`, and for the
    text of a track field through `C02.Accepted (.prim s.prim) (.str raw)` — for every other
    encoder that clause is just `raw.length ≤ maxInt` (`trackText_accepted_of_not_1047`),
    the model-size fact `ValueFits` (true of every Go string).
  * KF8 (Props/C02Fields.lean, `LenFits` inside `AcceptedAll`): the re-packed body of a
    composite has a length its own prefixer refuses; plus the benign `posTailB` clause.
    Only ordinary composite fields are concerned.
  * KF3 (Props/C01Tracks.lean): `strings.TrimSpace` on the captured groups and the skipped
    placeholders. Excluded through `Untrimmed s.kind raw` on the text the parser was given —
    the hypothesis of `C01Tracks.track_repack_partial`, under which the re-packed text IS the
    accepted text. It also excludes the zero-length value (`untrimmed_ne_nil`; the fourth
    witness of `track_kf3_witness`: an empty text clears the components, which re-pack to
    "=^^"-like text).
    `Untrimmed` is stronger than `NoGroupLost` (the exact KF3 exclusion of
    `track_repack_trimmed_partial`): a text whose groups are trimmed but not lost re-parses
    stably at text level, but at message level the re-packed text is SHORTER than what was
    read, so Pack under a `Fixed` prefixer fails (`tmsg_trimmed_fixed_witness`) — the track
    analogue of KF8 — and under a variable prefixer the reduction would need `InDomain` of
    the trimmed text for the wire layer, which is not derived here. That gap (trimmed, not
    lost, variable-length wire layer) is what remains unproved.
-/
import Iso8583.Props.C01TrackMsg
import Iso8583.Props.C02Fields
import Iso8583.Props.C04

set_option linter.unusedSimpArgs false
set_option linter.unusedVariables false

namespace Iso8583.C02TrackMsg
open Iso8583 TrackLemmas C01TrackMsg FieldRepackAll

/-! ## 1. Unpack never panics -/

/-- Unpack of one data element (ordinary or track) never panics -/
theorem mfield_unpack_no_panic (f : MField) (data : Bytes) : f.unpack data ≠ .panic := by
  rw [field_unpack_base]
  cases hu : f.base.unpack data with
  | err p => simp
  | panic => exact absurd hu (C04.field_unpack_no_panic _ _)
  | ok r =>
    obtain ⟨v, n⟩ := r
    cases hl : lift f v <;> simp [hl]

/-- … and reads no more than it was given -/
theorem mfield_unpack_read_le (f : MField) (data : Bytes) (mv : MValue) (r : Nat)
    (h : f.unpack data = .ok (mv, r)) : r ≤ data.length := by
  rw [field_unpack_base] at h
  cases hu : f.base.unpack data with
  | err p => simp [hu] at h
  | panic => simp [hu] at h
  | ok q =>
    obtain ⟨v, n⟩ := q
    simp only [hu] at h
    cases hl : lift f v with
    | none => simp [hl] at h
    | some w =>
      simp only [hl, UR.ok.injEq, Prod.mk.injEq] at h
      obtain ⟨_, rfl⟩ := h
      exact C04.field_unpack_read_le f.base data v n hu

/-- the scan never panics as long as it starts inside the source -/
theorem tscan_no_panic (spec : TMsgSpec) (bm : Bitmap) :
    ∀ (n i : Nat) (src : Bytes) (off : Nat) (acc : List (Nat × MValue)), off ≤ src.length →
      spec.scan bm n i src off acc ≠ .panic := by
  intro n
  induction n with
  | zero => intro i src off acc _; simp [TMsgSpec.scan]
  | succ n ih =>
    intro i src off acc ho
    by_cases hp : bm.isPresenceBit i = true
    · rw [tscan_skip spec bm n i src off acc (Or.inl hp)]
      exact ih _ _ _ _ ho
    · have hpf : bm.isPresenceBit i = false := by simpa using hp
      by_cases hs : bm.isSet i = true
      · cases hlk : lookupId i spec.fields with
        | none =>
          rw [TMsgSpec.scan]
          simp [hpf, hs, hlk]
        | some f =>
          rw [tscan_field spec bm n i src off acc f hpf hs hlk ho]
          cases hu : f.unpack (src.drop off) with
          | err p => simp
          | panic => exact absurd hu (mfield_unpack_no_panic _ _)
          | ok r =>
            obtain ⟨v, read⟩ := r
            have hr := mfield_unpack_read_le f _ v read hu
            simp only [List.length_drop] at hr
            exact ih _ _ _ _ (by omega)
      · have hsf : bm.isSet i = false := by simpa using hs
        rw [tscan_skip spec bm n i src off acc (Or.inr hsf)]
        exact ih _ _ _ _ ho

/-- **Message Unpack never panics** — every message spec with track fields (no coherence
hypothesis: any MTI spec, any ids, any bitmap spec, any wire layer of the track fields), every
input. -/
theorem tmsg_unpack_no_panic (spec : TMsgSpec) (src : Bytes) : spec.unpack src ≠ .panic := by
  unfold TMsgSpec.unpack
  split
  · simp
  · rename_i hp; exact absurd hp (PrimSpec.unpack_ne_panic _ _)
  · rename_i mtiV read hm
    have hrl := PrimSpec.unpack_read_le _ _ _ _ hm
    have : ¬ (read > src.length) := by omega
    simp only [this, ite_false]
    split
    · simp
    · rename_i hp
      exact absurd hp (C04.bitmap_unpack_no_panic _ _ _ _)
    · rename_i bm bread hbu
      have hbb := (C04.bitmap_unpack_bounds _ _ _ _ _ _ hbu).1
      simp only [List.length_drop] at hbb
      have hs := tscan_no_panic spec bm (bm.len - 1) 2 src (read + bread) [] (by omega)
      split
      · simp
      · rename_i hp; exact absurd hp hs
      · simp

/-! ## 2. Unpack simulates Unpack under the base spec -/

/-- **the scan is simulated by the base scan** (converse of `C01TrackMsg.scan_sim`): if the
scan succeeds, adding `tnew` to its accumulator, then the base scan succeeds from the same
offset with any accumulator, stops at the same offset, and adds entries `new` that lift to
`tnew` -/
theorem scan_sim_conv (spec : TMsgSpec) (bm : Bitmap) :
    ∀ (n i : Nat) (src : Bytes) (off : Nat) (tacc tres : List (Nat × MValue)) (off' : Nat),
      spec.scan bm n i src off tacc = .ok (tres, off') →
      ∀ acc : List (Nat × Value), ∃ new tnew, tres = tacc ++ tnew ∧
        liftAll spec.fields new = some tnew ∧
        spec.base.scan bm n i src off acc = .ok (acc ++ new, off') := by
  intro n
  induction n with
  | zero =>
    intro i src off tacc tres off' h acc
    simp only [TMsgSpec.scan, UR.ok.injEq, Prod.mk.injEq] at h
    obtain ⟨rfl, rfl⟩ := h
    exact ⟨[], [], by simp only [List.append_nil], rfl, by simp only [MsgSpec.scan, List.append_nil]⟩
  | succ n ih =>
    intro i src off tacc tres off' h acc
    by_cases hp : bm.isPresenceBit i = true
    · rw [tscan_skip spec bm n i src off tacc (Or.inl hp)] at h
      obtain ⟨new, tnew, h1, h2, h3⟩ := ih (i + 1) src off tacc tres off' h acc
      exact ⟨new, tnew, h1, h2, by rw [MessageRT.scan_skip spec.base bm n i src off acc (Or.inl hp)]; exact h3⟩
    · have hpf : bm.isPresenceBit i = false := by simpa using hp
      by_cases hs : bm.isSet i = true
      · cases hlk : lookupId i spec.fields with
        | none =>
          rw [TMsgSpec.scan] at h
          simp [hpf, hs, hlk] at h
        | some f =>
          have hb : lookupId i spec.base.fields = some f.base := by rw [base_fields, lookup_base, hlk]; rfl
          by_cases ho : off > src.length
          · rw [TMsgSpec.scan] at h
            simp [hpf, hs, hlk, ho] at h
          · rw [tscan_field spec bm n i src off tacc f hpf hs hlk (by omega), field_unpack_base] at h
            rw [MessageRT.scan_field spec.base bm n i src off acc f.base hpf hs hb (by omega)]
            cases hu : f.base.unpack (src.drop off) with
            | err q => simp [hu] at h
            | panic => simp [hu] at h
            | ok r =>
              obtain ⟨v, read⟩ := r
              simp only [hu] at h ⊢
              cases hlf : lift f v with
              | none => simp [hlf] at h
              | some mv =>
                simp only [hlf] at h
                obtain ⟨new, tnew, h1, h2, h3⟩ :=
                  ih (i + 1) src (off + read) (tacc ++ [(i, mv)]) tres off' h (acc ++ [(i, v)])
                refine ⟨(i, v) :: new, (i, mv) :: tnew, ?_, ?_, ?_⟩
                · rw [h1]; simp only [List.append_assoc, List.singleton_append]
                · simp only [liftAll, hlk, hlf, h2]
                · rw [h3]; simp only [List.append_assoc, List.singleton_append]
      · have hsf : bm.isSet i = false := by simpa using hs
        rw [tscan_skip spec bm n i src off tacc (Or.inr hsf)] at h
        obtain ⟨new, tnew, h1, h2, h3⟩ := ih (i + 1) src off tacc tres off' h acc
        exact ⟨new, tnew, h1, h2, by rw [MessageRT.scan_skip spec.base bm n i src off acc (Or.inr hsf)]; exact h3⟩

/-- inversion of a successful `TMsgSpec.unpack` (cf. `MessageRT.unpack_inv`) -/
theorem tunpack_inv (spec : TMsgSpec) (src : Bytes) (tm : TMsg) (n : Nat) (h : spec.unpack src = .ok (tm, n)) :
    ∃ v read bm bread fields,
      spec.mti.unpack src = .ok (v, read) ∧ read ≤ src.length ∧
      Bitmap.unpack spec.bitmap.enc spec.bitmap.pref
        (Bitmap.reset spec.bitmap.specLen spec.bitmap.auto) (src.drop read) = .ok (bm, bread) ∧
      spec.scan bm (bm.len - 1) 2 src (read + bread) [] = .ok (fields, n) ∧
      tm = { mti := some v, fields := fields } := by
  rw [TMsgSpec.unpack] at h
  cases hm : spec.mti.unpack src with
  | err => simp [hm] at h
  | panic => simp [hm] at h
  | ok r =>
    obtain ⟨v, read⟩ := r
    simp only [hm] at h
    by_cases hr : read > src.length
    · simp [hr] at h
    · simp only [hr, ite_false] at h
      split at h
      · cases h
      · cases h
      · rename_i bm bread hb
        split at h
        · cases h
        · cases h
        · rename_i fields off hs
          simp only [UR.ok.injEq, Prod.mk.injEq] at h
          obtain ⟨rfl, rfl⟩ := h
          exact ⟨v, read, bm, bread, fields, rfl, by omega, hb, hs, rfl⟩

/-- **Unpack simulates Unpack under the base spec**: whenever Unpack succeeds with `(tm, n)`,
the base spec (every track field read as the String primitive of its wire layer) accepts the
same bytes, consuming the same `n`, with the same MTI, and `tm.fields` are the base entries
lifted — ordinary values unchanged, a track value what the parser of a fresh track object
stored for the text in `bm` (the components cleared for an empty text). -/
theorem tunpack_sim (spec : TMsgSpec) (src : Bytes) (tm : TMsg) (n : Nat)
    (h : spec.unpack src = .ok (tm, n)) :
    ∃ bm, spec.base.unpack src = .ok (bm, n) ∧ bm.mti = tm.mti ∧
      liftAll spec.fields bm.fields = some tm.fields := by
  obtain ⟨v, read, bmp, bread, fields, h1, h2, h3, h4, rfl⟩ := tunpack_inv spec src tm n h
  obtain ⟨new, tnew, e1, e2, e3⟩ := scan_sim_conv spec bmp (bmp.len - 1) 2 src (read + bread) [] fields n h4 []
  simp only [List.nil_append] at e1 e3
  subst e1
  refine ⟨{ mti := some v, fields := new }, ?_, rfl, e2⟩
  have h1' : spec.base.mti.unpack src = .ok (v, read) := h1
  have h3' : Bitmap.unpack spec.base.bitmap.enc spec.base.bitmap.pref
      (Bitmap.reset spec.base.bitmap.specLen spec.base.bitmap.auto) (src.drop read) = .ok (bmp, bread) := h3
  have hr : ¬ read > src.length := by omega
  simp only [MsgSpec.unpack, h1', hr, ite_false, h3', e3]

/-- success of Unpack, characterised through the base spec (`tunpack_sim` and
`C01TrackMsg.tunpack_of_base` together) -/
theorem tunpack_ok_iff (spec : TMsgSpec) (src : Bytes) (tm : TMsg) (n : Nat) :
    spec.unpack src = .ok (tm, n) ↔
      ∃ bm, spec.base.unpack src = .ok (bm, n) ∧ bm.mti = tm.mti ∧
        liftAll spec.fields bm.fields = some tm.fields :=
  ⟨tunpack_sim spec src tm n, fun ⟨bm, h1, h2, h3⟩ => tunpack_of_base spec src bm tm n h1 h2 h3⟩

/-- the failing runs: whenever the base spec rejects the bytes, or accepts them with an entry
that does not lift (a track parser rejects its text), Unpack returns an error (never a panic,
never a value) -/
theorem tunpack_err_of_base (spec : TMsgSpec) (src : Bytes)
    (h : ∀ bm n, spec.base.unpack src = .ok (bm, n) → liftAll spec.fields bm.fields = none) :
    ∃ p, spec.unpack src = .err p := by
  cases hu : spec.unpack src with
  | err p => exact ⟨p, rfl⟩
  | panic => exact absurd hu (tmsg_unpack_no_panic spec src)
  | ok r =>
    obtain ⟨tm, n⟩ := r
    obtain ⟨bm, h1, _, h3⟩ := tunpack_sim spec src tm n hu
    rw [h bm n h1] at h3
    cases h3

/-! ## 3. C02: every accepted byte string re-packs -/

/-- **The full-strength statement** (no exclusion): for a coherent spec, whatever Unpack
accepts packs again, and the re-packed bytes (a Go slice) unpack to the same content,
consuming all of them. FALSE: `tmsg_repack_witness` (KF3; KF2 and KF8 through the ordinary
fields, Props/C02.lean and Props/C02Fields.lean). -/
def tmsg_repackStatement : Prop :=
  ∀ (spec : TMsgSpec) (b : Bytes) (tm : TMsg) (n : Nat),
    spec.coherent = true → spec.unpack b = .ok (tm, n) →
    ∃ b', spec.pack tm = .ok b' ∧ (b'.length ≤ maxInt → spec.unpack b' = .ok (tm, b'.length))

/-- what is required of the text `raw` that the wire layer of the track field `s` returned
and the track parser was given: no captured group is changed by `strings.TrimSpace` or
skipped as a placeholder (`Untrimmed`, the KF3 exclusion of `track_repack_partial`), and the
text is an accepted value of the String primitive of the wire layer (`C02.Accepted`: not KF2
under EBCDIC-1047; its length is a Go int) -/
def TrackTextOK (s : TrackSpec) (raw : Bytes) : Prop :=
  Untrimmed s.kind raw ∧ C02.Accepted (.prim s.prim) (.str raw)

/-- acceptance of one entry of the base reading: an ordinary field's value is `AcceptedAll`
(KF2, KF8 excluded); a track field's text is `TrackTextOK` (KF3, KF2 excluded) -/
def AcceptedField : MField → Value → Prop
  | .plain f, v => AcceptedAll f v
  | .track s, .str raw => TrackTextOK s raw
  | .track _, _ => True

/-- acceptance of the base reading `bm` of the bytes (`tunpack_sim`): the MTI and every
entry are accepted -/
def AcceptedT (spec : TMsgSpec) (bm : Msg) : Prop :=
  (∀ v, bm.mti = some v → AcceptedAll (.prim spec.mti) v) ∧
  ∀ p ∈ bm.fields, ∀ f, lookupId p.1 spec.fields = some f → AcceptedField f p.2

/-- for every encoder but EBCDIC-1047 the wire-layer clause of `TrackTextOK` is only the
model-size fact -/
theorem trackText_accepted_of_not_1047 (s : TrackSpec) (raw : Bytes) (he : s.enc ≠ .ebcdic1047)
    (hl : raw.length ≤ maxInt) : C02.Accepted (.prim s.prim) (.str raw) :=
  ⟨fun h => absurd h he, hl⟩

/-- … and under EBCDIC-1047 it is the KF2 clause: the text is plain ASCII -/
theorem trackText_accepted_of_ascii (s : TrackSpec) (raw : Bytes) (ha : ∀ c ∈ raw, c.toNat < 128)
    (hl : raw.length ≤ maxInt) : C02.Accepted (.prim s.prim) (.str raw) :=
  ⟨fun _ => ha, hl⟩

/-- the empty text is never `Untrimmed`: no pattern matches it (so the zero-length value,
which clears the components, is among the KF3 exclusions) -/
theorem untrimmed_ne_nil (k : TrackKind) : ¬ Untrimmed k [] := by
  intro h
  cases k with
  | t1 => obtain ⟨_, _, _, _, _, _, hg, _⟩ := h; cases hg
  | t2 => obtain ⟨_, _, _, _, _, hg, _⟩ := h; cases hg
  | t3 => obtain ⟨_, _, _, hg, _⟩ := h; cases hg

/-- one entry: what `lift` produced for an accepted base value has the sort of its field,
textifies back to the base value, and the base value is accepted by the base field -/
theorem lift_accepted (f : MField) (v : Value) (mv : MValue) (hl : lift f v = some mv)
    (ha : AcceptedField f v) :
    mv.textify = v ∧ sortOK f mv = true ∧ AcceptedAll f.base v := by
  cases f with
  | plain f =>
    simp only [lift, Option.some.injEq] at hl
    subst hl
    exact ⟨rfl, rfl, ha⟩
  | track s =>
    cases v with
    | str raw =>
      obtain ⟨hun, hacc⟩ := ha
      have hne : raw.isEmpty = false := by
        cases raw with
        | nil => exact absurd hun (untrimmed_ne_nil _)
        | cons _ _ => rfl
      simp only [lift, hne, Bool.false_eq_true, ite_false] at hl
      cases hr : s.fresh.unpackRaw raw with
      | mk new b =>
        cases b with
        | false => simp [hr] at hl
        | true =>
          simp only [hr, Option.some.injEq] at hl
          subst hl
          have hpt := (C01Tracks.track_repack_partial s.fresh new raw (TrackSpec.fresh_fixedLength s)
            (by rw [TrackSpec.fresh_kind]; exact hun) hr).1
          refine ⟨?_, rfl, AcceptedAll.prim _ _ hacc⟩
          simp only [MValue.textify, hpt]
    | num _ => simp [lift] at hl
    | bin _ => simp [lift] at hl
    | hexv _ => simp [lift] at hl
    | comp _ => simp [lift] at hl

/-- all entries -/
theorem liftAll_accepted (fields : List (Nat × MField)) :
    ∀ (l : List (Nat × Value)) (tl : List (Nat × MValue)), liftAll fields l = some tl →
      (∀ p ∈ l, ∀ f, lookupId p.1 fields = some f → AcceptedField f p.2) →
      tl.map tx = l ∧
      (∀ p ∈ tl, ∀ f, lookupId p.1 fields = some f → sortOK f p.2 = true) ∧
      (∀ p ∈ l, ∀ f, lookupId p.1 fields = some f → AcceptedAll f.base p.2) := by
  intro l
  induction l with
  | nil =>
    intro tl h _
    simp only [liftAll, Option.some.injEq] at h
    subst h
    refine ⟨rfl, ?_, ?_⟩ <;> intro p hp <;> cases hp
  | cons q qs ih =>
    intro tl h ha
    obtain ⟨i, v⟩ := q
    obtain ⟨f, mv, r, h1, h2, h3, rfl⟩ := liftAll_cons fields i v qs tl h
    obtain ⟨e1, e2, e3⟩ := ih r h3 (fun p hp => ha p (List.mem_cons_of_mem _ hp))
    obtain ⟨a1, a2, a3⟩ := lift_accepted f v mv h2 (ha (i, v) (List.mem_cons_self ..) f h1)
    refine ⟨?_, ?_, ?_⟩
    · simp only [List.map_cons, tx, a1, e1]
    · intro p hp g hg
      rcases List.mem_cons.mp hp with rfl | hp
      · simp only [h1, Option.some.injEq] at hg
        subst hg
        exact a2
      · exact e2 p hp g hg
    · intro p hp g hg
      rcases List.mem_cons.mp hp with rfl | hp
      · simp only [h1, Option.some.injEq] at hg
        subst hg
        exact a3
      · exact e3 p hp g hg

/-- the reduction, once: with accepted content the message read under the base spec is the
textified message, the content is well-sorted, and the base reading satisfies the hypotheses
of `C02Fields.message_repack_all` -/
theorem accepted_reduction (spec : TMsgSpec) (tm : TMsg) (bm : Msg) (hm : bm.mti = tm.mti)
    (hl : liftAll spec.fields bm.fields = some tm.fields) (hacc : AcceptedT spec bm) :
    tm.textify = bm ∧ WellSorted spec tm.fields ∧
    (∀ v, bm.mti = some v → AcceptedAll (.prim spec.base.mti) v) ∧
    (∀ p ∈ bm.fields, ∀ f, lookupId p.1 spec.base.fields = some f → AcceptedAll f p.2) := by
  obtain ⟨haM, haF⟩ := hacc
  obtain ⟨htx, hws, hba⟩ := liftAll_accepted spec.fields bm.fields tm.fields hl haF
  refine ⟨?_, hws, haM, ?_⟩
  · cases bm with
    | mk a c =>
      simp only at hm htx
      show ({ mti := tm.mti, fields := tm.fields.map tx } : Msg) = _
      rw [← hm, htx]
  · intro p hp f hf
    rw [base_fields, lookup_base] at hf
    cases hg : lookupId p.1 spec.fields with
    | none => simp [hg] at hf
    | some g =>
      rw [hg] at hf
      simp only [Option.map_some, Option.some.injEq] at hf
      subst hf
      exact hba p hp g hg

/-- **C02 for messages with track fields** (KF2, KF8, KF3 excluded through `AcceptedT`): for
a coherent spec, whatever Unpack accepts — the base reading of the bytes being accepted:
MTI and ordinary values `AcceptedAll`, the text handed to every track parser `Untrimmed`
and accepted by the wire layer — packs again, and the re-packed bytes (a Go slice) unpack
to the same content, consuming all of them. The base reading exists and is unique
(`tunpack_sim`), so the hypothesis `hacc` is about exactly one `bm`. -/
theorem tmsg_repack_partial (spec : TMsgSpec) (b : Bytes) (tm : TMsg) (n : Nat)
    (hc : spec.coherent = true) (hu : spec.unpack b = .ok (tm, n))
    (hacc : ∀ bm, spec.base.unpack b = .ok (bm, n) → AcceptedT spec bm) :
    ∃ b', spec.pack tm = .ok b' ∧ (b'.length ≤ maxInt → spec.unpack b' = .ok (tm, b'.length)) := by
  obtain ⟨bm, hb, hm, hl⟩ := tunpack_sim spec b tm n hu
  obtain ⟨hte, hws, haM, haF⟩ := accepted_reduction spec tm bm hm hl (hacc bm hb)
  obtain ⟨_, _, b', hp, hub⟩ := C02Fields.message_repack_all spec.base b bm n hc hb haM haF
  refine ⟨b', ?_, fun hlen => tunpack_of_base spec b' bm tm b'.length (hub hlen) hm hl⟩
  rw [tpack_eq_base spec tm hws, hte]
  exact hp

/-- **re-encoding is a canonicalisation**: with the hypotheses of `tmsg_repack_partial`, the
re-packed bytes `b'` decode to the same content, whatever they decode to packs to exactly
`b'` (unpack-then-pack applied twice gives the same bytes as once), and `b'` satisfies the
acceptance hypothesis again (its base reading is that of `b`) -/
theorem tmsg_repack_fixed_point_partial (spec : TMsgSpec) (b : Bytes) (tm : TMsg) (n : Nat)
    (hc : spec.coherent = true) (hu : spec.unpack b = .ok (tm, n))
    (hacc : ∀ bm, spec.base.unpack b = .ok (bm, n) → AcceptedT spec bm)
    (b' : Bytes) (hp : spec.pack tm = .ok b') (hlen : b'.length ≤ maxInt) :
    spec.unpack b' = .ok (tm, b'.length) ∧
    (∀ m' n' b'', spec.unpack b' = .ok (m', n') → spec.pack m' = .ok b'' → m' = tm ∧ b'' = b') ∧
    (∀ bm', spec.base.unpack b' = .ok (bm', b'.length) → AcceptedT spec bm') := by
  obtain ⟨bm, hb, hm, hl⟩ := tunpack_sim spec b tm n hu
  have hA := hacc bm hb
  obtain ⟨hte, hws, haM, haF⟩ := accepted_reduction spec tm bm hm hl hA
  obtain ⟨_, _, b1, hp1, hub⟩ := C02Fields.message_repack_all spec.base b bm n hc hb haM haF
  have hpb : spec.base.pack bm = .ok b' := by rw [← hte, ← tpack_eq_base spec tm hws]; exact hp
  rw [hpb] at hp1
  simp only [Res.ok.injEq] at hp1
  subst hp1
  have hub' := hub hlen
  have hu1 : spec.unpack b' = .ok (tm, b'.length) := tunpack_of_base spec b' bm tm b'.length hub' hm hl
  refine ⟨hu1, ?_, ?_⟩
  · intro m' n' b'' hu' hp'
    rw [hu1] at hu'
    simp only [UR.ok.injEq, Prod.mk.injEq] at hu'
    obtain ⟨rfl, _⟩ := hu'
    rw [hp] at hp'
    simp only [Res.ok.injEq] at hp'
    exact ⟨rfl, hp'.symm⟩
  · intro bm' hb'
    rw [hub'] at hb'
    simp only [UR.ok.injEq, Prod.mk.injEq] at hb'
    rw [← hb'.1]
    exact hA

/-! ## What fails: KF3 at message level -/

/-- "0100", bitmap with bit 35, field 35 = "13" "4242=2408201 " (discretionary data " ") -/
def kf3Bytes : Bytes :=
  [48,49,48,48,  0,0,0,0,32,0,0,0,  49,51, 52,50,52,50,61,50,52,48,56,50,48,49,32]

/-- what Unpack stores: the blank discretionary data is trimmed away -/
def kf3Msg : TMsg :=
  { mti := some (.str [48,49,48,48]),
    fields := [ (35, .track (.t2 { pan := [52,50,52,50], sep := [61], expiry := some ⟨2024, 8⟩, serviceCode := [50,48,49], data := [] })) ] }

/-- the re-packed bytes: field 35 = "12" "4242=2408201" -/
def kf3Repacked : Bytes :=
  [48,49,48,48,  0,0,0,0,32,0,0,0,  49,50, 52,50,52,50,61,50,52,48,56,50,48,49]

/-- **KF3 witness, message level**: the bytes are accepted completely, the content packs,
and the re-packed bytes are rejected at field 35 -/
theorem tmsg_kf3_witness :
    demoSpec.coherent = true ∧ demoSpec.unpack kf3Bytes = .ok (kf3Msg, 27) ∧
    demoSpec.pack kf3Msg = .ok kf3Repacked ∧ demoSpec.unpack kf3Repacked = .err [natToDec 35] := by
  refine ⟨by decide, by rfl, by decide, by rfl⟩

/-- the full statement is false -/
theorem tmsg_repack_witness : ¬ tmsg_repackStatement := by
  intro h
  obtain ⟨hc, hu, hp, he⟩ := tmsg_kf3_witness
  obtain ⟨b', hp', hu'⟩ := h demoSpec kf3Bytes kf3Msg 27 hc hu
  rw [hp] at hp'
  simp only [Res.ok.injEq] at hp'
  subst hp'
  have := hu' (by decide)
  rw [he] at this
  cases this

/-- Track2 with a `Fixed` prefixer of 14 bytes, no padding -/
def fixedSpec : TMsgSpec :=
  { mti := demoSpec.mti, bitmap := demoSpec.bitmap,
    fields := [ (35, .track { kind := .t2, len := 14, enc := .ascii, pref := .fixed .ascii, pad := .nil }) ] }

/-- "0100", bitmap with bit 35, field 35 = "4242=2408201 X" (discretionary data " X") -/
def trimmedBytes : Bytes :=
  [48,49,48,48,  0,0,0,0,32,0,0,0,  52,50,52,50,61,50,52,48,56,50,48,49,32,88]

/-- what Unpack stores for `trimmedBytes`: the data " X" trimmed to "X" -/
def trimmedMsg : TMsg :=
  { mti := some (.str [48,49,48,48]),
    fields := [ (35, .track (.t2 { pan := [52,50,52,50], sep := [61], expiry := some ⟨2024, 8⟩, serviceCode := [50,48,49], data := [88] })) ] }

/-- **trimmed, not lost, fixed length**: the text satisfies `NoGroupLost` (the exact KF3
exclusion at text level) but is not `Untrimmed`; the parser stores the data "X", the
re-packed text is one byte shorter than the `Fixed` prefixer demands, and Pack fails. This is
why `tmsg_repack_partial` can not be stated with `NoGroupLost` alone. -/
theorem tmsg_trimmed_fixed_witness :
    fixedSpec.coherent = true ∧
    fixedSpec.unpack trimmedBytes = .ok (trimmedMsg, 26) ∧ fixedSpec.pack trimmedMsg = .err ∧
    NoGroupLost TrackKind.t2 [52,50,52,50,61,50,52,48,56,50,48,49,32,88] := by
  refine ⟨by decide, by rfl, by decide, ?_⟩
  exact ⟨[52,50,52,50], [61], [50,52,48,56], [50,48,49], [32,88], by decide, by decide⟩

/-! ## Non-vacuity: the hypotheses are satisfiable on concrete data -/

/-- the base reading of `C01TrackMsg.demoBytes`: the two track fields as texts -/
def demoBase : Msg :=
  { mti := some (.str [48,49,48,48]),
    fields := [ (2, .str [52,50,52,50]),
                (35, .str [52,50,52,50,52,50,52,50,52,50,52,50,52,50,52,50,61,50,52,48,56,50,48,49,49,50,51]),
                (45, .str [66,52,50,52,50,94,83,77,73,84,72,47,74,79,72,78,32,81,94,54,57,49,50,94,88,32,89]) ] }

example : demoSpec.coherent = true := by decide

/-- the demo bytes are accepted, and their base reading is `demoBase` -/
theorem demo_unpack : demoSpec.unpack demoBytes = .ok (demoSpec.canon demoMsg, 76) := by rfl

theorem demo_base_unpack : demoSpec.base.unpack demoBytes = .ok (demoBase, 76) := by rfl

example : liftAll demoSpec.fields demoBase.fields = some (demoSpec.canon demoMsg).fields := by rfl

theorem ascii_accepted (s : PrimSpec) (raw : Bytes) (he : s.enc = .ascii) (hl : raw.length ≤ maxInt) :
    AcceptedAll (.prim s) (.str raw) :=
  AcceptedAll.prim _ _ ⟨fun h => (by rw [he] at h; cases h), hl⟩

/-- the hypotheses of `tmsg_repack_partial` hold for the demo bytes -/
theorem demo_accepted : ∀ bm, demoSpec.base.unpack demoBytes = .ok (bm, 76) → AcceptedT demoSpec bm := by
  intro bm h
  rw [demo_base_unpack] at h
  simp only [UR.ok.injEq, Prod.mk.injEq, and_true] at h
  subst h
  refine ⟨?_, ?_⟩
  · intro v hv
    simp only [demoBase, Option.some.injEq] at hv
    subst hv
    exact ascii_accepted _ _ rfl (by decide)
  · intro p hp f hf
    simp only [demoBase, List.mem_cons, List.not_mem_nil, or_false] at hp
    rcases hp with rfl | rfl | rfl
    · have : f = .plain (.prim { kind := .string, len := 19, enc := .ascii, pref := .var .ascii 2, pad := .nil }) := by
        have h2 : lookupId 2 demoSpec.fields = some (.plain (.prim { kind := .string, len := 19, enc := .ascii, pref := .var .ascii 2, pad := .nil })) := by rfl
        rw [h2] at hf; simp only [Option.some.injEq] at hf; exact hf.symm
      subst this
      exact ascii_accepted _ _ rfl (by decide)
    · have : f = .track C01Tracks.demoSpec2 := by
        have h2 : lookupId 35 demoSpec.fields = some (.track C01Tracks.demoSpec2) := by rfl
        rw [h2] at hf; simp only [Option.some.injEq] at hf; exact hf.symm
      subst this
      refine ⟨⟨[52,50,52,50,52,50,52,50,52,50,52,50,52,50,52,50], [61], [50,52,48,56], [50,48,49], [49,50,51],
        by decide, by decide⟩, ?_⟩
      exact trackText_accepted_of_not_1047 _ _ (by decide) (by decide)
    · have : f = .track { kind := .t1, len := 76, enc := .ascii, pref := .var .ascii 2, pad := .nil } := by
        have h2 : lookupId 45 demoSpec.fields =
            some (.track { kind := .t1, len := 76, enc := .ascii, pref := .var .ascii 2, pad := .nil }) := by rfl
        rw [h2] at hf; simp only [Option.some.injEq] at hf; exact hf.symm
      subst this
      refine ⟨⟨[66], [52,50,52,50], [83,77,73,84,72,47,74,79,72,78,32,81], [54,57,49,50], [94], [88,32,89],
        by rfl, by decide, by decide, by decide⟩, ?_⟩
      exact trackText_accepted_of_not_1047 _ _ (by decide) (by decide)

/-- `tmsg_repack_partial` applies to the demo bytes, and the re-packed bytes are the demo
bytes themselves -/
example : ∃ b', demoSpec.pack (demoSpec.canon demoMsg) = .ok b' ∧
    (b'.length ≤ maxInt → demoSpec.unpack b' = .ok (demoSpec.canon demoMsg, b'.length)) :=
  tmsg_repack_partial demoSpec demoBytes (demoSpec.canon demoMsg) 76 (by decide) demo_unpack demo_accepted

example : demoSpec.pack (demoSpec.canon demoMsg) = .ok demoBytes := by decide

/-- `tmsg_repack_fixed_point_partial` on the demo bytes -/
example : demoSpec.unpack demoBytes = .ok (demoSpec.canon demoMsg, demoBytes.length) :=
  (tmsg_repack_fixed_point_partial demoSpec demoBytes (demoSpec.canon demoMsg) 76 (by decide) demo_unpack
    demo_accepted demoBytes (by decide) (by decide)).1

/-- the KF3 bytes do NOT satisfy the hypothesis: the text handed to the Track2 parser is trimmed -/
example : ¬ (∀ bm, demoSpec.base.unpack kf3Bytes = .ok (bm, 27) → AcceptedT demoSpec bm) := by
  intro h
  obtain ⟨hc, hu, hp, he⟩ := tmsg_kf3_witness
  obtain ⟨b', hp', hu'⟩ := tmsg_repack_partial demoSpec kf3Bytes kf3Msg 27 hc hu h
  rw [hp] at hp'
  simp only [Res.ok.injEq] at hp'
  subst hp'
  have := hu' (by decide)
  rw [he] at this
  cases this

/-- the no-panic theorem on a truncated demo message (cut inside the Track2 field): an error
at field 35, not a panic -/
example : demoSpec.unpack (demoBytes.take 30) ≠ .panic := tmsg_unpack_no_panic demoSpec _

example : demoSpec.unpack (demoBytes.take 30) = .err [natToDec 35] := by rfl

/-- … and on bytes whose Track2 text the parser rejects ("4242" without separator): the base
spec accepts them, no entry lifts, Unpack errs at field 35 -/
example : demoSpec.unpack [48,49,48,48, 0,0,0,0,32,0,0,0, 48,52, 52,50,52,50] = .err [natToDec 35] := by rfl

end Iso8583.C02TrackMsg
