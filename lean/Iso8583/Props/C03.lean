/-
C03 — Packed bytes follow the ISO 8583 layout the spec defines (reference codec).

The operational model of `Message.Pack` (Model/*.lean, shaped like the Go code and tied to
it by channels M / F / P / E / B) is proved equal, for every coherent spec and every
in-domain message, to the declarative reference encoder of Spec/Layout.lean (shaped like
the standard; it shares no function with the model). Layer by layer: `prefix_layout`,
`encoder_layout`, `bitmap_layout`, `field_layout` (induction over the spec tree, all three
composite modes, any nesting depth), `message_layout`, and the property theorem
`pack_refines_layout`. `layout_decodes` is the converse direction, derived from
`pack_refines_layout` and the C01 message round-trip statement `C01.MessageRoundTrip` (taken
as an explicit hypothesis, `RoundTripStatement`, because another property file proves it).
-/
import Iso8583.Lemmas.LayoutMessage
import Iso8583.Props.C06

namespace Iso8583.C03
open Iso8583 Iso8583.Layout

/-! ## Layers -/

/-- **Length prefixes.** Every prefixer with an exported digit count writes exactly the
reference rendering of the length — `d` zero-padded decimal ASCII / EBCDIC digits, `d`
packed BCD digits, `d` big-endian bytes, `2d` upper-case hex characters, BER short / long
form, nothing for Fixed / None — and fails exactly when the reference has no rendering
(too long for the field, too large for the digit count, fixed length mismatch). -/
theorem prefix_layout (p : Pref) (maxLen n : Nat) (hp : p.exportedB = true) :
    p.encodeLength maxLen n = Res.ofOption (lengthPrefix p maxLen n) :=
  encodeLength_eq p maxLen n hp

/-- the same for the prefixers of the table regenerated from /repo/prefix/*.go -/
theorem prefix_layout_exported (p : Pref) (maxLen n : Nat) (hp : C06.Exported p) :
    p.encodeLength maxLen n = Res.ofOption (lengthPrefix p maxLen n) := by
  apply prefix_layout
  cases p with
  | var f d =>
    have := C06.exported_var_digits f d hp
    simp [Pref.exportedB, this]
  | fixed f => rfl
  | berTLV => rfl
  | none => rfl

/-- **Value encodings.** Every encoder writes exactly the reference form of the text — ASCII
as is, EBCDIC through the code-page table, BCD two digits per byte high nibble first and
zero-filled on the left (LBCD: on the right), upper-case hex, raw bytes — and fails exactly
when the text is outside the encoding's alphabet. -/
theorem encoder_layout (e : Enc) (x : Bytes) (h : e.accepts x = true) :
    Enc.encode e x = Res.ofOption (encodeText e x) :=
  encode_eq e x (fun he => accepts_ascii h he)

/-- **Bitmap.** The bitmap that the first loop of `Message.pack` builds with `Bitmap.Set`
(any order of the ids, ids ≥ 2 that are not continuation positions) has as data exactly the
characteristic function of the id set: bit `i` (1-indexed, most significant bit first) set
iff `i` is an id or `i` is the first bit of a block that is followed by another block; minimal
number of blocks when auto-expanding, exactly one block otherwise; and the loop fails exactly
when a fixed bitmap can not represent an id. -/
theorem bitmap_layout (specLen : Nat) (auto : Bool) (ids : List Nat) (h2 : ∀ n ∈ ids, 2 ≤ n)
    (hp : ∀ n ∈ ids, (Bitmap.reset specLen auto).isPresenceBit n = false) :
    match bitmapData specLen auto ids with
    | some D => ∃ bm, MsgSpec.setBits ids (Bitmap.reset specLen auto) = .ok bm ∧ bm.data = D ∧
        bm.blockLen = Bitmap.blockLenOf specLen ∧ bm.auto = auto
    | none => MsgSpec.setBits ids (Bitmap.reset specLen auto) = .err :=
  setBits_layout specLen auto ids h2 hp

/-- the bare bit-set form: any run of `Set` calls on a fresh bitmap (ids ≥ 1; a fixed bitmap
only for ids inside its block) yields the reference bitmap of those ids -/
theorem bitmap_set_layout (specLen : Nat) (auto : Bool) (ids : List Nat) (h1 : ∀ n ∈ ids, 1 ≤ n)
    (hfit : auto = true ∨ ∀ n ∈ ids, n ≤ Bitmap.blockLenOf specLen * 8) :
    bitmapData specLen auto ids = some (ids.foldl Bitmap.set (Bitmap.reset specLen auto)).data :=
  setAll_reset_data specLen auto ids h1 hfit

/-- the reference bitmap is a function of the *set* of ids -/
theorem bitmap_order_irrelevant (specLen : Nat) (auto : Bool) {l1 l2 : List Nat} (h : l1.Perm l2) :
    bitmapData specLen auto l1 = bitmapData specLen auto l2 :=
  bitmapData_perm specLen auto h

/-- **Fields.** For every field spec of the grammar — primitive or composite (positional,
tagged, BER-TLV, bitmapped), nested to any depth — and every in-domain value, `Field.Pack`
produces `bs` iff the reference layout of the field is `bs`. -/
theorem field_layout (f : Field) (v : Value) (lp : Bool) (hc : f.coherent lp = true)
    (hd : f.inDomain v = true) (bs : Bytes) :
    f.pack v = .ok bs ↔ encodeField f v = some bs := by
  rw [← field_pack_eq f v lp hc hd]
  exact toOpt_eq_some.symm

/-- **Messages** (equational form): what a caller of `Message.Pack` sees is the reference
encoder's result. -/
theorem message_layout (spec : MsgSpec) (m : Msg) (hc : spec.coherent = true) (hd : spec.inDomain m = true) :
    toOpt (spec.pack m) = refEncode spec m :=
  message_pack_eq spec m hc hd

/-! ## The property -/

/-- **C03.** For every coherent message spec and every in-domain message, `Message.Pack`
returns the bytes `bs` if and only if the ISO 8583 reference layout of the message is `bs`
(in particular Pack fails exactly when the reference defines no layout). -/
theorem pack_refines_layout (spec : MsgSpec) (m : Msg) (hc : spec.coherent = true)
    (hd : spec.inDomain m = true) (bs : Bytes) :
    spec.pack m = .ok bs ↔ refEncode spec m = some bs := by
  rw [← message_layout spec m hc hd]
  exact toOpt_eq_some.symm

/-- Pack fails (error or panic) exactly when there is no layout -/
theorem pack_fails_iff_no_layout (spec : MsgSpec) (m : Msg) (hc : spec.coherent = true)
    (hd : spec.inDomain m = true) :
    (∀ bs, spec.pack m ≠ .ok bs) ↔ refEncode spec m = none := by
  rw [← message_layout spec m hc hd]
  cases spec.pack m <;> simp [toOpt]

/-- the shape of every packed message: MTI, then the encoded bitmap of the present ids, then
the present data elements in ascending id order -/
theorem pack_shape (spec : MsgSpec) (m : Msg) (hc : spec.coherent = true) (hd : spec.inDomain m = true)
    (bs : Bytes) (h : spec.pack m = .ok bs) :
    ∃ mtiV mtiBytes bits bmBytes elems,
      m.mti = some mtiV ∧ encodePrim spec.mti mtiV = some mtiBytes ∧
      bitmapData spec.bitmap.specLen spec.bitmap.auto (m.fields.map (·.1)) = some bits ∧
      encodeText spec.bitmap.enc bits = some bmBytes ∧
      encodeElements spec m ((m.fields.map (·.1)).foldl max 0 - 1) 2 = some elems ∧
      bs = mtiBytes ++ bmBytes ++ elems := by
  have href := (pack_refines_layout spec m hc hd bs).mp h
  unfold refEncode at href
  cases hm : m.mti with
  | none => simp [hm] at href
  | some mtiV =>
    simp only [hm] at href
    split at href
    · cases href
    · cases h1 : encodePrim spec.mti mtiV with
      | none => simp [h1] at href
      | some mtiBytes =>
        cases h2 : bitmapData spec.bitmap.specLen spec.bitmap.auto (m.fields.map (·.1)) with
        | none => simp [h1, h2] at href
        | some bits =>
          simp only [h1, h2] at href
          cases h3 : encodeText spec.bitmap.enc bits with
          | none => simp [h3] at href
          | some bmBytes =>
            cases h4 : encodeElements spec m ((m.fields.map (·.1)).foldl max 0 - 1) 2 with
            | none => simp [h3, h4] at href
            | some elems =>
              simp only [h3, h4, Option.some.injEq] at href
              exact ⟨mtiV, mtiBytes, bits, bmBytes, elems, rfl, h1, rfl, h3, rfl, href.symm⟩

/-! ## The converse direction: bytes laid out by the reference unpack to the values -/

/-- The statement of the C01 message round-trip theorem — word for word the definition
`C01.MessageRoundTrip` of Props/C01.lean (not imported here so that this file does not depend
on another session's proofs; `RoundTripStatement spec` and `C01.MessageRoundTrip spec` unfold
to the same proposition): what `Pack` produced unpacks — whatever bytes
follow — to the canonical form of the message, consuming exactly the bytes produced, and the
canonical message packs to the same bytes. -/
def RoundTripStatement (spec : MsgSpec) : Prop :=
  ∀ (m : Msg) (tail bs : Bytes),
    spec.coherent = true → spec.inDomain m = true → spec.pack m = .ok bs →
    (∃ n, spec.unpack (bs ++ tail) = .ok (spec.canon m, n) ∧ n = bs.length) ∧
    spec.pack (spec.canon m) = .ok bs

/-- **C03, converse.** Bytes laid out by the reference encoder unpack to the (canonical form
of the) values they were built from, consuming exactly those bytes whatever follows, and the
canonical values pack to the same bytes again. Corollary of `pack_refines_layout` and C01
(an explicit hypothesis here). -/
theorem layout_decodes (spec : MsgSpec) (hC01 : RoundTripStatement spec) (m : Msg)
    (hc : spec.coherent = true) (hd : spec.inDomain m = true) (bs tail : Bytes)
    (h : refEncode spec m = some bs) :
    spec.unpack (bs ++ tail) = .ok (spec.canon m, bs.length) ∧ spec.pack (spec.canon m) = .ok bs := by
  obtain ⟨⟨n, hu, hn⟩, hp⟩ := hC01 m tail bs hc hd ((pack_refines_layout spec m hc hd bs).mpr h)
  subst hn
  exact ⟨hu, hp⟩

/-! ## Non-vacuity -/

/-- the documentation's examples (docs/bitmap.md): `4210000000000000` ⇔ fields 2, 7, 12 -/
example : bitmapData 8 true [2, 7, 12] = some [0x42, 0x10, 0, 0, 0, 0, 0, 0] := by decide
/-- primary `F0…` + secondary `30…` ⇔ fields (1,) 2, 3, 4, 67, 68 -/
example : bitmapData 8 true [2, 3, 4, 67, 68] =
    some [0xF0, 0, 0, 0, 0, 0, 0, 0, 0x30, 0, 0, 0, 0, 0, 0, 0] := by decide
example : bitmapData 2 false [3, 20] = none := by decide
example : lengthPrefix (.var .bcd 3) 999 123 = some [0x01, 0x23] := by decide
example : lengthPrefix (.var .binary 2) 999 300 = some [0x01, 0x2C] := by decide
example : lengthPrefix (.var .hex 1) 255 171 = some [0x41, 0x42] := by decide
example : lengthPrefix .berTLV 0 300 = some [0x82, 0x01, 0x2C] := by decide
example : encodeText .bcd [0x31, 0x32, 0x33] = some [0x01, 0x23] := by decide
example : encodeText .lbcd [0x31, 0x32, 0x33] = some [0x12, 0x30] := by decide
example : C06.Exported (.var .hex 6) := by unfold C06.Exported; decide +kernel

/-- a spec that uses a String, a padded BCD Numeric, a BER-TLV composite and a bitmapped
composite, with a field in the second bitmap block -/
def demoSpec : MsgSpec :=
  { mti := { kind := .string, len := 4, enc := .ascii, pref := .fixed .ascii, pad := .nil },
    bitmap := { specLen := 8, enc := .binary, pref := .fixed .binary, auto := true },
    fields :=
      [ (2, .prim { kind := .string, len := 19, enc := .ascii, pref := .var .ascii 2, pad := .nil }),
        (4, .prim { kind := .numeric, len := 6, enc := .bcd, pref := .fixed .bcd, pad := .left 0x30 }),
        (55, .comp { len := 255, pref := .var .binary 1,
                     mode := .tagged { len := 0, enc := some .berTag, pad := .nil, sort := .byHex,
                                       skipUnknown := false, prefUnknown := none } }
          [ ([0x39, 0x41], .prim { kind := .hex, len := 3, enc := .binary, pref := .berTLV, pad := .nil }),
            ([0x39, 0x46, 0x30, 0x32], .prim { kind := .string, len := 6, enc := .bcd, pref := .berTLV, pad := .nil }) ]),
        (66, .comp { len := 99, pref := .var .ascii 2,
                     mode := .bitmapped { specLen := 1, enc := .bytesToHex, pref := .fixed .hex, auto := false } }
          [ ([0x31], .prim { kind := .string, len := 2, enc := .ascii, pref := .fixed .ascii, pad := .nil }),
            ([0x33], .prim { kind := .string, len := 5, enc := .ebcdic, pref := .var .ebcdic 1, pad := .nil }) ]) ] }

def demoMsg : Msg :=
  { mti := some (.str [0x30, 0x31, 0x30, 0x30]),
    fields :=
      [ (66, .comp [([0x33], .str [0x41, 0x42])]),
        (2, .str [0x34, 0x32, 0x34, 0x32]),
        (55, .comp [([0x39, 0x46, 0x30, 0x32], .str [0x31, 0x32, 0x33]), ([0x39, 0x41], .hexv [0x61, 0x42, 0x30, 0x31])]),
        (4, .num 1234) ] }

example : demoSpec.coherent = true := by decide +kernel
example : demoSpec.inDomain demoMsg = true := by decide +kernel

def demoBytes : Bytes :=
  [0x30, 0x31, 0x30, 0x30,                                   -- MTI "0100"
   0xD0, 0, 0, 0, 0, 0, 0x02, 0,  0x40, 0, 0, 0, 0, 0, 0, 0,  -- bits 1 (second block follows), 2, 4, 55; 66
   0x30, 0x34, 0x34, 0x32, 0x34, 0x32,                       -- 2: "04" "4242"
   0x00, 0x12, 0x34,                                         -- 4: 001234 packed BCD
   0x09, 0x9A, 0x02, 0xAB, 0x01, 0x9F, 0x02, 0x03, 0x01, 0x23,   -- 55: length 9; 9A 02 AB01; 9F02 03 0123
   0x30, 0x35, 0x32, 0x30, 0xF2, 0xC1, 0xC2]                 -- 66: "05", bitmap "20" (bit 3), EBCDIC "2" "AB"

example : refEncode demoSpec demoMsg = some demoBytes := by decide +kernel
example : demoSpec.pack demoMsg = .ok demoBytes := by decide +kernel
/-- a fixed two-byte bitmap can not announce field 20: no layout, and Pack refuses -/
example : refEncode { demoSpec with bitmap := { demoSpec.bitmap with specLen := 2, auto := false } }
    { demoMsg with fields := [(4, .num 1)] } ≠ none := by decide +kernel
example : refEncode { demoSpec with bitmap := { demoSpec.bitmap with specLen := 2, auto := false } } demoMsg = none := by
  decide +kernel

end Iso8583.C03
