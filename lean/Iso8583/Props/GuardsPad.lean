/-
C20, decision logic tied by TRANSLATION: the condition under which `leftPadder.Pad` /
`rightPadder.Pad` return their input unchanged (`len(data) >= length`), rendered from
/repo/padding/*.go on every run, is the model's.
-/
import Iso8583.Gen.GuardsPad
import Iso8583.Model.Padding
import Iso8583.Lemmas.GuardTactics

namespace Iso8583.GuardsPad
open Iso8583 Iso8583.Gen.Guards

theorem left_pad_iff (dlen length : Nat) : (left_Pad_exits dlen length).any id = true ↔ dlen ≥ length := by
  unfold left_Pad_exits; guards_to_prop <;> guards_done

theorem right_pad_iff (dlen length : Nat) : (right_Pad_exits dlen length).any id = true ↔ dlen ≥ length := by
  unfold right_Pad_exits; guards_to_prop <;> guards_done

theorem left_pad_translated (c : Byte) (data : Bytes) (length : Nat) :
    Pad.pad (.left c) data length =
      if (left_Pad_exits data.length length).any id then data
      else List.replicate (length - data.length) c ++ data := by
  simp only [Pad.pad]
  by_cases h : data.length ≥ length
  · rw [if_pos h, if_pos ((left_pad_iff _ _).mpr h)]
  · rw [if_neg h, if_neg (fun x => h ((left_pad_iff _ _).mp x))]

theorem right_pad_translated (c : Byte) (data : Bytes) (length : Nat) :
    Pad.pad (.right c) data length =
      if (right_Pad_exits data.length length).any id then data
      else data ++ List.replicate (length - data.length) c := by
  simp only [Pad.pad]
  by_cases h : data.length ≥ length
  · rw [if_pos h, if_pos ((right_pad_iff _ _).mpr h)]
  · rw [if_neg h, if_neg (fun x => h ((right_pad_iff _ _).mp x))]

example : (left_Pad_exits 3 3).any id = true ∧ (left_Pad_exits 2 3).any id = false := by decide

end Iso8583.GuardsPad
