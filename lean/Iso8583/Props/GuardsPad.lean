/-
C20, decision logic tied by TRANSLATION: the condition under which `leftPadder.Pad` /
`rightPadder.Pad` return their input unchanged (`len(data) >= length`), rendered from
/repo/padding/*.go on every run, is the model's.
-/
import Iso8583.Gen.GuardsPad
import Iso8583.Model.Padding

namespace Iso8583.GuardsPad
open Iso8583 Iso8583.Gen.Guards

theorem left_pad_translated (c : Byte) (data : Bytes) (length : Nat) :
    Pad.pad (.left c) data length =
      if (left_Pad_exits data.length length).any id then data
      else List.replicate (length - data.length) c ++ data := by
  have h : ((data.length : Int) ≥ (length : Int)) ↔ data.length ≥ length := by omega
  simp only [Pad.pad, left_Pad_exits, List.any_cons, List.any_nil, id, Bool.or_false, decide_eq_true_eq, h]

theorem right_pad_translated (c : Byte) (data : Bytes) (length : Nat) :
    Pad.pad (.right c) data length =
      if (right_Pad_exits data.length length).any id then data
      else data ++ List.replicate (length - data.length) c := by
  have h : ((data.length : Int) ≥ (length : Int)) ↔ data.length ≥ length := by omega
  simp only [Pad.pad, right_Pad_exits, List.any_cons, List.any_nil, id, Bool.or_false, decide_eq_true_eq, h]

example : (left_Pad_exits 3 3).any id = true ∧ (left_Pad_exits 2 3).any id = false := by decide

end Iso8583.GuardsPad
