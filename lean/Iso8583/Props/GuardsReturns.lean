/-
C06 / C07 / C01 / C08, RESULTS tied by TRANSLATION: `Gen/GuardsReturns.lean` holds, rendered from
the function bodies of /repo on every run (harness/cmd/extract/guards.go, `Rets` / `Args` /
`Slices`), what the decoding functions RETURN besides their decision: the number of bytes each
`DecodeLength` / `Decode` / `Unpack` reports as read, the length a prefixer hands on, the length
an unpacker passes to the decoder, and the bounds of the slices they cut. For every input the
hand-written model reports exactly those numbers. A read count that is off by one, a prefix that
reports the wrong width, an unpacker that forgets the prefix bytes in its total or passes the
announced instead of the padded length to the decoder then breaks a theorem here even when no
generated input shows it.

`firstRet` reads a generated `_returns` list the way the function runs: the first return whose
branch condition holds.
-/
import Iso8583.Gen.GuardsReturns
import Iso8583.Model.Prefix
import Iso8583.Model.Field
import Iso8583.Model.Message
import Iso8583.Model.Bitmap
import Iso8583.Props.GuardsComposite
import Iso8583.Lemmas.GuardFns
import Iso8583.Lemmas.GuardTactics

namespace Iso8583.GuardsReturns
open Iso8583 Iso8583.Gen.Guards Iso8583.GuardFns Pref

def firstRet : List (Bool × List Int) → Option (List Int)
  | [] => none
  | (c, v) :: rest => if c then some v else firstRet rest

/-! ### length prefixers: `DecodeLength` reports (length, bytes read) -/

theorem finishDec_read (maxLen : Nat) (ds : Bytes) (read n r : Nat)
    (h : finishDec maxLen ds read = .ok (n, r)) : r = read := by
  unfold finishDec at h
  split at h
  · cases h
  · split at h
    · cases h
    · split at h
      · cases h
      · cases h; rfl

theorem ascii_decodeLength_returns (maxLen d : Nat) (data : Bytes) (n r : Nat)
    (h : decodeLength (.var .ascii d) maxLen data = .ok (n, r)) :
    firstRet (ascii_DecodeLength_returns maxLen data.length d n) = some [(n : Int), (r : Int)] := by
  simp only [decodeLength] at h
  split at h
  · cases h
  · have := finishDec_read _ _ _ _ _ h
    subst this
    simp [ascii_DecodeLength_returns, firstRet]

theorem ebcdic_decodeLength_returns (maxLen d : Nat) (data : Bytes) (n r : Nat)
    (h : decodeLength (.var .ebcdic d) maxLen data = .ok (n, r)) :
    firstRet (ebcdic_DecodeLength_returns maxLen data.length d n) = some [(n : Int), (r : Int)] := by
  simp only [decodeLength] at h
  split at h
  · cases h
  · split at h
    · have := finishDec_read _ _ _ _ _ h
      subst this
      simp [ebcdic_DecodeLength_returns, firstRet]
    · cases h
    · cases h

theorem ebcdic1047_decodeLength_returns (maxLen d : Nat) (data : Bytes) (n r : Nat)
    (h : decodeLength (.var .ebcdic1047 d) maxLen data = .ok (n, r)) :
    firstRet (ebcdic1047_DecodeLength_returns maxLen data.length d n) = some [(n : Int), (r : Int)] := by
  simp only [decodeLength] at h
  split at h
  · cases h
  · split at h
    · have := finishDec_read _ _ _ _ _ h
      subst this
      simp [ebcdic1047_DecodeLength_returns, firstRet]
    · cases h
    · cases h

theorem bcd_decodeLength_returns (maxLen d : Nat) (data : Bytes) (n r : Nat)
    (h : decodeLength (.var .bcd d) maxLen data = .ok (n, r)) :
    firstRet (bcd_DecodeLength_returns maxLen data.length d n) = some [(n : Int), (r : Int)] := by
  simp only [decodeLength] at h
  split at h
  · cases h
  · split at h
    · have := finishDec_read _ _ _ _ _ h
      subst this
      simp only [bcd_DecodeLength_returns, firstRet, if_true, Option.some.injEq, List.cons.injEq, true_and, and_true]
      omega
    · cases h
    · cases h

theorem binary_decodeLength_returns (maxLen d : Nat) (data : Bytes) (n r : Nat)
    (h : decodeLength (.var .binary d) maxLen data = .ok (n, r)) :
    firstRet (binary_DecodeLength_returns maxLen data.length d n) = some [(n : Int), (r : Int)] := by
  simp only [decodeLength] at h
  split at h
  · cases h
  · split at h
    · cases h
    · split at h
      · cases h
      · cases h
        simp [binary_DecodeLength_returns, firstRet]

theorem hex_decodeLength_returns (maxLen d : Nat) (data : Bytes) (n r : Nat)
    (h : decodeLength (.var .hex d) maxLen data = .ok (n, r)) :
    firstRet (hex_DecodeLength_returns maxLen data.length d n) = some [(n : Int), (r : Int)] := by
  simp only [decodeLength] at h
  split at h
  · cases h
  · split at h
    · cases h
    · split at h
      · cases h
      · cases h
        simp only [hex_DecodeLength_returns, firstRet, if_true, Option.some.injEq, List.cons.injEq, true_and, and_true]
        omega

/-- BER-TLV: the short form reports one byte read and the first byte as the length; the long form
reports `1 + (firstByte - 128)` bytes read and the big-endian value of those bytes -/
theorem ber_decodeLength_returns (maxLen : Nat) (first : Byte) (rest : Bytes) (n r : Nat)
    (h : decodeLength .berTLV maxLen (first :: rest) = .ok (n, r)) :
    ∃ v : Nat, firstRet (ber_DecodeLength_returns maxLen first.toNat v) = some [(n : Int), (r : Int)] ∧
      (¬ first.toNat < 128 → v = beValue (rest.take (first.toNat - 128))) := by
  simp only [decodeLength] at h
  split at h
  · rename_i hs
    split at h
    · cases h
    · rename_i hm
      cases h
      refine ⟨0, ?_, fun hh => absurd hs hh⟩
      have hc : ((decide ((first.toNat : Int) < 128) && !(decide ((maxLen : Int) ≠ 0) && decide ((first.toNat : Int) > (maxLen : Int)))) = true) := by
        simp only [Bool.and_eq_true, Bool.not_eq_true', Bool.and_eq_false_iff, decide_eq_true_eq, decide_eq_false_iff_not]
        constructor
        · omega
        · by_cases h0 : maxLen = 0
          · left; omega
          · right
            have : ¬ first.toNat > maxLen := fun hh => hm ⟨h0, hh⟩
            omega
      simp only [ber_DecodeLength_returns, firstRet, hc, if_true]
      rfl
  · rename_i hs
    split at h
    · cases h
    · split at h
      · cases h
      · split at h
        · cases h
        · simp only [Res.ok.injEq, Prod.mk.injEq] at h
          obtain ⟨h1, h2⟩ := h
          subst h1; subst h2
          refine ⟨beValue (rest.take (first.toNat - 128)), ?_, fun _ => rfl⟩
          have hc : ((decide ((first.toNat : Int) < 128) && !(decide ((maxLen : Int) ≠ 0) && decide ((first.toNat : Int) > (maxLen : Int)))) = false) := by
            have : ¬ ((first.toNat : Int) < 128) := by omega
            simp [this]
          unfold ber_DecodeLength_returns
          rw [firstRet, hc, if_neg (by decide), firstRet, if_pos rfl]
          simp only [Option.some.injEq, List.cons.injEq, and_true, true_and]
          omega

theorem none_decodeLength_returns (maxLen : Nat) (data : Bytes) (n r : Nat)
    (h : decodeLength .none maxLen data = .ok (n, r)) :
    firstRet (none_DecodeLength_returns maxLen data.length) = some [(n : Int), (r : Int)] := by
  simp only [decodeLength] at h
  cases h
  simp [none_DecodeLength_returns, firstRet]

/-- every fixed prefixer reports the spec's length and zero bytes read … -/
theorem fixed_decodeLength_returns (f : Fam) (fixLen : Nat) (data : Bytes) (n r : Nat)
    (h : decodeLength (.fixed f) fixLen data = .ok (n, r)) :
    firstRet (asciiFixed_DecodeLength_returns fixLen data.length) = some [(n : Int), (r : Int)] ∧
    firstRet (ebcdicFixed_DecodeLength_returns fixLen data.length) = some [(n : Int), (r : Int)] ∧
    firstRet (ebcdic1047Fixed_DecodeLength_returns fixLen data.length) = some [(n : Int), (r : Int)] ∧
    firstRet (bcdFixed_DecodeLength_returns fixLen data.length) = some [(n : Int), (r : Int)] ∧
    firstRet (binaryFixed_DecodeLength_returns fixLen data.length) = some [(n : Int), (r : Int)] ∧
    firstRet (hexFixed_DecodeLength_returns fixLen data.length) = some [(n : Int), (r : Int)] := by
  simp only [decodeLength] at h
  cases h
  simp [asciiFixed_DecodeLength_returns, ebcdicFixed_DecodeLength_returns, ebcdic1047Fixed_DecodeLength_returns,
    bcdFixed_DecodeLength_returns, binaryFixed_DecodeLength_returns, hexFixed_DecodeLength_returns, firstRet]

/-- … and refuses, on the packing side, exactly a length that differs from the spec's (twice the
spec's for the hex family, whose unit is the byte and whose value is counted in hex digits) -/
theorem fixed_encodeLength_guarded (f : Fam) (fixLen n : Nat) :
    encodeLength (.fixed f) fixLen n =
      if (match f with
          | .ascii => asciiFixed_EncodeLength_guards fixLen n
          | .ebcdic => ebcdicFixed_EncodeLength_guards fixLen n
          | .ebcdic1047 => ebcdic1047Fixed_EncodeLength_guards fixLen n
          | .bcd => bcdFixed_EncodeLength_guards fixLen n
          | .binary => binaryFixed_EncodeLength_guards fixLen n
          | .hex => hexFixed_EncodeLength_guards fixLen n).any id then .err else .ok [] := by
  cases f <;> simp only [encodeLength, asciiFixed_EncodeLength_guards, ebcdicFixed_EncodeLength_guards,
    ebcdic1047Fixed_EncodeLength_guards, bcdFixed_EncodeLength_guards, binaryFixed_EncodeLength_guards,
    hexFixed_EncodeLength_guards, List.any_cons, List.any_nil, Bool.or_false, id, decide_eq_true_eq] <;>
  · by_cases hh : n = fixLen <;> (try by_cases hh2 : n = fixLen * 2) <;> simp_all <;> omega

/-! ### encoders: `Decode` reports the number of bytes it read -/

theorem ascii_decode_returns (data out : Bytes) (length : Int) (r : Nat)
    (h : Enc.decode .ascii data length = .ok (out, r)) :
    firstRet (ascii_Decode_returns length data.length) = some [(r : Int)] := by
  cases length with
  | ofNat n =>
    simp only [Enc.decode, Enc.decodeNat] at h
    split at h
    · cases h
    · split at h
      · cases h; simp [ascii_Decode_returns, firstRet]
      · cases h
  | negSucc k => simp [Enc.decode] at h

theorem binary_decode_returns (data out : Bytes) (length : Int) (r : Nat)
    (h : Enc.decode .binary data length = .ok (out, r)) :
    firstRet (binary_Decode_returns length data.length) = some [(r : Int)] := by
  cases length with
  | ofNat n =>
    simp only [Enc.decode, Enc.decodeNat] at h
    split at h
    · cases h
    · cases h; simp [binary_Decode_returns, firstRet]
  | negSucc k => simp [Enc.decode] at h

theorem ebcdic_decode_returns (data out : Bytes) (length : Int) (r : Nat)
    (h : Enc.decode .ebcdic data length = .ok (out, r)) :
    firstRet (ebcdic_Decode_returns length data.length) = some [(r : Int)] := by
  cases length with
  | ofNat n =>
    simp only [Enc.decode, Enc.decodeNat] at h
    split at h
    · cases h
    · cases h; simp [ebcdic_Decode_returns, firstRet]
  | negSucc k => simp [Enc.decode] at h

theorem ebcdic1047_decode_returns (data out : Bytes) (length : Int) (r : Nat)
    (h : Enc.decode .ebcdic1047 data length = .ok (out, r)) :
    firstRet (ebcdic1047_Decode_returns length data.length) = some [(r : Int)] := by
  cases length with
  | ofNat n =>
    simp only [Enc.decode, Enc.decodeNat] at h
    split at h
    · cases h
    · cases h; simp [ebcdic1047_Decode_returns, firstRet]
  | negSucc k => simp [Enc.decode] at h

theorem hexToBytes_decode_returns (data out : Bytes) (length : Int) (r : Nat)
    (h : Enc.decode .hexToBytes data length = .ok (out, r)) :
    firstRet (hexToBytes_Decode_returns length data.length) = some [(r : Int)] := by
  cases length with
  | ofNat n =>
    simp only [Enc.decode, Enc.decodeNat] at h
    split at h
    · cases h
    · cases h; simp [hexToBytes_Decode_returns, firstRet]
  | negSucc k => simp [Enc.decode] at h

theorem bytesToHex_decode_returns (data out : Bytes) (length : Int) (r : Nat)
    (h : Enc.decode .bytesToHex data length = .ok (out, r)) :
    firstRet (bytesToHex_Decode_returns length data.length) = some [(r : Int)] := by
  cases length with
  | ofNat n =>
    simp only [Enc.decode, Enc.decodeNat] at h
    split at h
    · cases h
    · split at h
      · cases h
      · cases h
        simp only [bytesToHex_Decode_returns, firstRet, if_true, Option.some.injEq, List.cons.injEq, and_true]
        simp only [Int.ofNat_eq_natCast]
        omega
  | negSucc k => simp [Enc.decode] at h

/-- BCD: `length/2 + length%2` bytes for `length` digits -/
theorem bcd_decode_returns (data out : Bytes) (length : Int) (r : Nat)
    (h : Enc.decode .bcd data length = .ok (out, r)) :
    firstRet (bcd_Decode_returns length data.length) = some [(r : Int)] := by
  cases length with
  | ofNat n =>
    simp only [Enc.decode, Enc.decodeNat] at h
    split at h
    · cases h
    · split at h
      · cases h
      · cases h
        simp only [bcd_Decode_returns, firstRet, if_true, Option.some.injEq, List.cons.injEq, and_true]
        simp only [Int.ofNat_eq_natCast]
        omega
  | negSucc k => simp [Enc.decode] at h

theorem lbcd_decode_returns (data out : Bytes) (length : Int) (r : Nat)
    (h : Enc.decode .lbcd data length = .ok (out, r)) :
    firstRet (lbcd_Decode_returns length data.length) = some [(r : Int)] := by
  cases length with
  | ofNat n =>
    simp only [Enc.decode, Enc.decodeNat] at h
    split at h
    · cases h
    · split at h
      · cases h
      · cases h
        simp only [lbcd_Decode_returns, firstRet, if_true, Option.some.injEq, List.cons.injEq, and_true]
        simp only [Int.ofNat_eq_natCast]
        omega
  | negSucc k => simp [Enc.decode] at h

/-! ### the unpackers: which length goes to the decoder, which total comes back -/

def one (l : Option (List Int)) : Option Int :=
  match l with
  | some [x] => some x
  | _ => Option.none

/-- `defaultUnpacker.Unpack`, restated with the translated pieces: the decoder is called on the
bytes after the prefix (`packedFieldValue[prefBytes:]`) with exactly the announced length, and the
total reported is `read + prefBytes` -/
theorem default_unpack_translated (s : PrimSpec) (hp : s.packer = .default) (data : Bytes)
    (vl pb : Nat) (hd : s.pref.decodeLength s.len data = .ok (vl, pb)) (hle : pb ≤ data.length) :
    default_Unpack_slices vl pb 0 0 (decide (s.pad ≠ .nil)) = [[(pb : Int), -1]] ∧
    ∃ L : Int, one (firstRet (default_Unpack_args_spec_Enc_Decode vl pb 0 0 (decide (s.pad ≠ .nil)))) = some L ∧
      PrimSpec.unpackBytes s data =
        match Enc.decode s.enc (data.drop pb) L with
        | .err => .err
        | .panic => .panic
        | .ok (value, read) =>
          if (default_Unpack_guards vl pb read (s.pad.unpad value).length (decide (s.pad ≠ .nil))).any id then .err
          else match one (firstRet (default_Unpack_returns vl pb read (s.pad.unpad value).length (decide (s.pad ≠ .nil)))) with
            | some t => .ok (s.pad.unpad value, t.toNat)
            | Option.none => .panic := by
  refine ⟨rfl, (vl : Int), rfl, ?_⟩
  simp only [PrimSpec.unpackBytes, hd, hp]
  rw [if_neg (by omega)]
  cases Enc.decode s.enc (data.drop pb) (vl : Int) with
  | err => rfl
  | panic => rfl
  | ok vr =>
    obtain ⟨value, read⟩ := vr
    simp only [default_Unpack_guards, default_Unpack_returns, firstRet, one, List.any_nil, if_true, Bool.false_eq_true, if_false]
    exact congrArg (fun k => Res.ok (s.pad.unpad value, k)) (by omega)

/-- `Track2Unpacker.Unpack`: the decoder gets the announced length made even when the spec has a
padder (`valueLength++` under `spec.Pad != nil && valueLength%2 != 0`), the value after unpadding
must not be longer than the announced length, and the total is `read + prefBytes` -/
theorem track2_unpack_translated (s : PrimSpec) (hp : s.packer = .track2) (data : Bytes)
    (vl pb : Nat) (hd : s.pref.decodeLength s.len data = .ok (vl, pb)) (hle : pb ≤ data.length) :
    track2_Unpack_slices vl pb 0 0 (decide (s.pad ≠ .nil)) = [[(pb : Int), -1]] ∧
    ∃ L : Int, one (firstRet (track2_Unpack_args_spec_Enc_Decode vl pb 0 0 (decide (s.pad ≠ .nil)))) = some L ∧
      PrimSpec.unpackBytes s data =
        match Enc.decode s.enc (data.drop pb) L with
        | .err => .err
        | .panic => .panic
        | .ok (value, read) =>
          if (track2_Unpack_guards vl pb read (s.pad.unpad value).length (decide (s.pad ≠ .nil))).any id then .err
          else match one (firstRet (track2_Unpack_returns vl pb read (s.pad.unpad value).length (decide (s.pad ≠ .nil)))) with
            | some t => .ok (s.pad.unpad value, t.toNat)
            | Option.none => .panic := by
  refine ⟨rfl, (if s.pad ≠ .nil ∧ vl % 2 ≠ 0 then (vl : Int) + 1 else (vl : Int)), ?_, ?_⟩
  · simp only [track2_Unpack_args_spec_Enc_Decode, firstRet, one, if_true]
    by_cases h1 : s.pad ≠ .nil <;> by_cases h2 : vl % 2 ≠ 0
    · have h2' : ((vl : Int) % 2 ≠ 0) := by omega
      simp [h1, h2, h2'] <;> omega
    · have h2' : ¬ ((vl : Int) % 2 ≠ 0) := by omega
      simp [h1, h2, h2'] <;> omega
    · simp [h1, h2] <;> omega
    · simp [h1, h2] <;> omega
  · simp only [PrimSpec.unpackBytes, hd, hp]
    rw [if_neg (by omega)]
    generalize Enc.decode s.enc (data.drop pb) _ = e
    cases e with
    | err => rfl
    | panic => rfl
    | ok vr =>
      obtain ⟨value, read⟩ := vr
      have : ((read : Int) + (pb : Int)).toNat = read + pb := by omega
      by_cases hg : (s.pad.unpad value).length > vl
      · have hg' : (((s.pad.unpad value).length : Int) > (vl : Int)) := by omega
        simp [track2_Unpack_guards, hg, hg']
      · have hg' : ¬ (((s.pad.unpad value).length : Int) > (vl : Int)) := by omega
        simp only [track2_Unpack_guards, track2_Unpack_returns, firstRet, one, List.any_cons, List.any_nil, Bool.or_false, id,
          decide_eq_true_eq, hg, hg', if_false, if_true]
        exact congrArg (fun k => Res.ok (s.pad.unpad value, k)) (by omega)

/-! ### `Composite.Unpack`: the body handed to the subfields and the total reported -/

/-- Go's `x[lo:hi]` -/
def sliceOf (data : Bytes) (lo hi : Int) : Bytes := (data.take hi.toNat).drop lo.toNat

theorem sliceOf_eq (data : Bytes) (o d : Nat) : sliceOf data (o : Int) ((o : Int) + (d : Int)) = (data.drop o).take d := by
  have h1 : ((o : Int) + (d : Int)).toNat = o + d := by omega
  have h2 : ((o : Int)).toNat = o := by omega
  unfold sliceOf
  rw [h1, h2, List.drop_take]
  congr 1
  omega

theorem sliceOf_eq' (data : Bytes) (o d : Nat) (lo hi : Int) (h1 : lo = (o : Int)) (h2 : hi = (o : Int) + (d : Int)) :
    sliceOf data lo hi = (data.drop o).take d := by
  subst h1; subst h2; exact sliceOf_eq data o d

/-- whatever `Composite.Unpack` accepts: the subfields saw exactly `data[offset : offset+dataLen]`
(the one slice expression of the source), and the count reported is `offset + read` -/
theorem composite_unpack_ok_returns (s : CompSpec) (subs : List (Tag × Field)) (data : Bytes)
    (v : Value) (n : Nat) (h : Field.unpack (.comp s subs) data = .ok (v, n)) :
    ∃ dataLen offset read : Nat, s.pref.decodeLength s.len data = .ok (dataLen, offset) ∧
      firstRet (composite_Unpack_returns dataLen offset data.length read) = some [(n : Int)] ∧
      (match composite_Unpack_slices dataLen offset data.length read with
       | [[lo, hi]] => sliceOf data lo hi = (data.drop offset).take dataLen
       | _ => False) := by
  obtain ⟨dataLen, offset, read, hd, hn, _⟩ := GuardsComposite.composite_unpack_ok_guards_false s subs data v n h
  refine ⟨dataLen, offset, read, hd, ?_, ?_⟩
  · subst hn
    simp only [composite_Unpack_returns, firstRet, if_true, Option.some.injEq, List.cons.injEq, and_true]
    omega
  · simp only [composite_Unpack_slices]
    exact sliceOf_eq' data offset dataLen _ _ (by omega) (by omega)

/-! ### the packers: which length is announced, which length the padder is asked for -/

/-- `defaultPacker.Pack`: the padder (when there is one) is asked for the declared length, and the
prefix announces the length of the value AFTER padding (`len(value)` once `value` was re-assigned) -/
theorem default_pack_translated (s : PrimSpec) (hp : s.packer = .default) (value : Bytes) :
    ∃ padTo L : Int,
      (s.pad ≠ .nil → one (firstRet (default_Pack_args_spec_Pad_Pad s.len value.length (s.pad.pad value s.len).length (decide (s.pad ≠ .nil)))) = some padTo ∧ padTo = s.len) ∧
      (match firstRet (default_Pack_args_spec_Pref_EncodeLength s.len value.length (s.pad.pad value s.len).length (decide (s.pad ≠ .nil))) with
        | some [m, l] => m = s.len ∧ l = L
        | _ => False) ∧
      (s.pad = .nil → (s.pad.pad value s.len) = value) ∧
      PrimSpec.packBytes s value =
        match Enc.encode s.enc (s.pad.pad value s.len) with
        | .ok encoded =>
          match s.pref.encodeLength s.len L.toNat with
          | .ok pre => .ok (pre ++ encoded)
          | .err => .err
          | .panic => .panic
        | .err => .err
        | .panic => .panic := by
  refine ⟨s.len, ((s.pad.pad value s.len).length : Int), ?_, ?_, ?_, ?_⟩
  · intro h
    simp [default_Pack_args_spec_Pad_Pad, firstRet, one, h]
  · by_cases h : s.pad = .nil
    · have hv : (s.pad.pad value s.len) = value := by rw [h]; rfl
      simp [default_Pack_args_spec_Pref_EncodeLength, firstRet, h]
      rfl
    · simp [default_Pack_args_spec_Pref_EncodeLength, firstRet, h]
  · intro h; rw [h]; rfl
  · have : (((s.pad.pad value s.len).length : Int)).toNat = (s.pad.pad value s.len).length := by omega
    simp only [PrimSpec.packBytes, hp, this]
    rfl

/-- `Track2Packer.Pack`: only an odd-length value is padded, by one character, and the prefix
announces the length of the ORIGINAL value -/
theorem track2_pack_translated (s : PrimSpec) (hp : s.packer = .track2) (value : Bytes) :
    ∃ L : Int,
      (match firstRet (track2_Pack_args_spec_Pref_EncodeLength s.len value.length 0 (decide (s.pad ≠ .nil))) with
        | some [m, l] => m = s.len ∧ l = L
        | _ => False) ∧
      PrimSpec.packBytes s value =
        match Enc.encode s.enc
            (match firstRet (track2_Pack_args_spec_Pad_Pad s.len value.length 0 (decide (s.pad ≠ .nil))) with
              | some [n] => s.pad.pad value n.toNat
              | _ => value) with
        | .ok encoded =>
          match s.pref.encodeLength s.len L.toNat with
          | .ok pre => .ok (pre ++ encoded)
          | .err => .err
          | .panic => .panic
        | .err => .err
        | .panic => .panic := by
  refine ⟨(value.length : Int), ?_, ?_⟩
  · simp [track2_Pack_args_spec_Pref_EncodeLength, firstRet]
  · have h0 : ((value.length : Int)).toNat = value.length := by omega
    simp only [PrimSpec.packBytes, hp, h0]
    by_cases h1 : s.pad ≠ .nil <;> by_cases h2 : value.length % 2 ≠ 0
    · have h2' : ((value.length : Int) % 2 ≠ 0) := by omega
      have h3 : ((value.length : Int) + 1).toNat = value.length + 1 := by omega
      simp [track2_Pack_args_spec_Pad_Pad, firstRet, h1, h2, h2', h3]
      rfl
    · have h2' : ¬ ((value.length : Int) % 2 ≠ 0) := by omega
      simp [track2_Pack_args_spec_Pad_Pad, firstRet, h1, h2, h2']
      rfl
    · simp [track2_Pack_args_spec_Pad_Pad, firstRet, h1, h2]
      rfl
    · simp [track2_Pack_args_spec_Pad_Pad, firstRet, h1, h2]
      rfl

/-! ### `Composite.Pack` / `packByTag` -/

/-- `Composite.Pack` (tagged composites): the prefix is computed from the declared length and the
length of the packed subfields — the two arguments of the source's `EncodeLength` call -/
theorem composite_pack_translated (s : CompSpec) (t : TagSpec) (hm : s.mode = .tagged t) (subs : List (Tag × Field))
    (vals : List (Tag × Value)) (packed : Bytes) (hp : packByTag t subs vals = .ok packed) :
    ∃ m l : Int, firstRet (composite_Pack_args_f_spec_Pref_EncodeLength s.len packed.length) = some [m, l] ∧
      Field.pack (.comp s subs) (.comp vals) =
        match s.pref.encodeLength m.toNat l.toNat with
        | .ok pre => .ok (pre ++ packed)
        | .err => .err
        | .panic => .panic := by
  refine ⟨_, _, rfl, ?_⟩
  have h1 : ((s.len : Int)).toNat = s.len := by omega
  have h2 : ((packed.length : Int)).toNat = packed.length := by omega
  rw [h1, h2]
  simp only [Field.pack, hm, hp]
  rfl

/-- `packByTag`: a subfield of the spec that is not set is skipped (the source's `continue`), and the
tag of a set one is padded to `Tag.Length` — the argument of the source's `Pad` call — and then encoded -/
theorem packByTag_skip_translated (t : TagSpec) (tag : Tag) (f : Field) (rest : List (Tag × Field)) (vals : List (Tag × Value))
    (h : (composite_packByTag_skips t.len true (lookup tag vals).isSome t.enc.isSome (decide (t.pad ≠ .nil))).any id = true) :
    packByTag t ((tag, f) :: rest) vals = packByTag t rest vals := by
  have hn : lookup tag vals = Option.none := by
    cases hl : lookup tag vals with
    | none => rfl
    | some v => simp [composite_packByTag_skips, hl] at h
  simp [packByTag, hn]

theorem packByTag_tag_translated (t : TagSpec) (enc : Enc) (tag : Tag) :
    ∃ L : Int, one (firstRet (composite_packByTag_args_f_spec_Tag_Pad_Pad t.len true true true true)) = some L ∧
      encodeTag t enc tag = Enc.encode enc (t.pad.pad tag L.toNat) := by
  refine ⟨_, rfl, ?_⟩
  have h1 : ((t.len : Int)).toNat = t.len := by omega
  rw [h1]
  rfl

example : (composite_packByTag_skips 2 true false true true).any id = true ∧ (composite_packByTag_skips 2 true true true true).any id = false ∧
    (composite_packByTag_guards 2 false true true true).any id = true := by decide

/-! ### the running offset of `Message.unpack` -/

/-- an assignment `(keep, delta)` applied to the old value -/
def applyUpd (u : Int × Int) (old : Int) : Int := u.1 * old + u.2

open MsgSpec in
/-- the element loop: after a data element is decoded the offset has moved by exactly the bytes
that element reported (the third assignment to `off` in the source), and the element was decoded
from `src[off:]` (the second slice expression) -/
theorem scan_set_translated (spec : MsgSpec) (bm : Bitmap) (n i : Nat) (src : Bytes) (off : Nat)
    (acc : List (Nat × Value)) (f : Field) (v : Value) (read : Nat)
    (hp : bm.isPresenceBit i = false) (hs : bm.isSet i = true) (hf : lookupId i spec.fields = some f)
    (ho : ¬ off > src.length)
    (hu : ∃ lo, (message_unpack_slices off read)[1]? = some [lo, -1] ∧ f.unpack (src.drop lo.toNat) = .ok (v, read)) :
    ∃ u, (message_unpack_updates_off off read)[2]? = some u ∧
      scan spec bm (n + 1) i src off acc = scan spec bm n (i + 1) src (applyUpd u off).toNat (acc ++ [(i, v)]) := by
  obtain ⟨lo, hlo, hv⟩ := hu
  simp only [message_unpack_slices, List.getElem?_cons_succ, List.getElem?_cons_zero, Option.some.injEq, List.cons.injEq, and_true] at hlo
  subst hlo
  have h0 : ((off : Int)).toNat = off := by omega
  rw [h0] at hv
  refine ⟨_, rfl, ?_⟩
  have h1 : ∀ u, (message_unpack_updates_off off read)[2]? = some u → (applyUpd u (off : Int)).toNat = off + read := by
    intro u hu
    simp only [message_unpack_updates_off, List.getElem?_cons_succ, List.getElem?_cons_zero, Option.some.injEq] at hu
    subst hu
    simp only [applyUpd]; omega
  rw [h1 _ rfl]
  simp [scan, hp, hs, hf, ho, hv]

open MsgSpec in
/-- the prologue: `off` starts at 0, the MTI moves it by the bytes it read, the bitmap is decoded
from `src[off:]` and adds the bytes it read, and the element loop starts there -/
theorem unpack_prologue_translated (spec : MsgSpec) (src : Bytes) (mtiV : Value) (r1 : Nat) (bm : Bitmap) (r2 : Nat)
    (hm : spec.mti.unpack src = .ok (mtiV, r1)) (hle : ¬ r1 > src.length) :
    ∃ i0 u0 u1 lo, (message_unpack_init_off 0 0) = [i0] ∧
      (message_unpack_updates_off i0 r1)[0]? = some u0 ∧
      (message_unpack_updates_off (applyUpd u0 i0) r2)[1]? = some u1 ∧
      (message_unpack_slices (applyUpd u0 i0) 0)[0]? = some [lo, -1] ∧
      (Bitmap.unpack spec.bitmap.enc spec.bitmap.pref (Bitmap.reset spec.bitmap.specLen spec.bitmap.auto) (src.drop lo.toNat) = .ok (bm, r2) →
        MsgSpec.unpack spec src =
          match scan spec bm (bm.len - 1) 2 src (applyUpd u1 (applyUpd u0 i0)).toNat [] with
          | .err p => .err p
          | .panic => .panic
          | .ok (fields, off) => .ok ({ mti := some mtiV, fields := fields }, off)) := by
  refine ⟨_, _, _, _, rfl, rfl, rfl, rfl, ?_⟩
  have h0 : ∀ u, (message_unpack_updates_off 0 r1)[0]? = some u → applyUpd u 0 = (r1 : Int) := by
    intro u hu
    simp only [message_unpack_updates_off, List.getElem?_cons_zero, Option.some.injEq] at hu
    subst hu
    simp only [applyUpd]; omega
  have h1 : ∀ u, (message_unpack_updates_off (r1 : Int) r2)[1]? = some u → (applyUpd u (r1 : Int)).toNat = r1 + r2 := by
    intro u hu
    simp only [message_unpack_updates_off, List.getElem?_cons_succ, List.getElem?_cons_zero, Option.some.injEq] at hu
    subst hu
    simp only [applyUpd]; omega
  intro hb
  rw [h0 _ rfl] at hb
  have hr : ((r1 : Int)).toNat = r1 := by omega
  rw [hr] at hb
  rw [h0 _ rfl, h1 _ rfl]
  simp only [MsgSpec.unpack, hm, hle, if_false, hb]
  rfl

/-! ### the running offset of the composite loops -/

/-- `unpackSubfieldsByTag`, a known tag: the offset moves by the bytes of the tag (first
assignment to `offset` after its definition) and then by the bytes the subfield reported (third) -/
theorem tlv_known_step_translated (t : TagSpec) (enc : Enc) (isBer : Bool) (known : Tag → Bool)
    (dispatch : Tag → Bytes → UR (Value × Nat)) (fuel : Nat) (data : Bytes) (offset : Nat) (acc : List (Tag × Value))
    (tagBytes : Bytes) (read : Nat) (v : Value) (read' : Nat)
    (hlt : ¬ offset ≥ data.length)
    (hd : Enc.decode enc (data.drop offset) t.len = .ok (tagBytes, read))
    (hk : known (t.pad.unpad tagBytes) = true) (hle : ¬ offset + read > data.length)
    (hv : dispatch (t.pad.unpad tagBytes) (data.drop (offset + read)) = .ok (v, read'))
    (hp : ¬ (read = 0 ∧ read' = 0)) :
    ∃ u1 u3, (tlv_unpackSubfieldsByTag_updates_offset offset data.length 0 read 0 0)[0]? = some u1 ∧
      (tlv_unpackSubfieldsByTag_updates_offset (applyUpd u1 offset) data.length 0 read' 0 0)[2]? = some u3 ∧
      tlv_unpackSubfieldsByTag_init_offset 0 0 0 0 0 0 = [0] ∧
      tlvLoop t enc isBer known dispatch (fuel + 1) data offset acc =
        tlvLoop t enc isBer known dispatch fuel data (applyUpd u3 (applyUpd u1 offset)).toNat
          (insertKV (t.pad.unpad tagBytes) v acc) := by
  refine ⟨_, _, rfl, rfl, rfl, ?_⟩
  have h1 : ∀ u, (tlv_unpackSubfieldsByTag_updates_offset offset data.length 0 read 0 0)[0]? = some u →
      applyUpd u (offset : Int) = ((offset + read : Nat) : Int) := by
    intro u hu
    simp only [tlv_unpackSubfieldsByTag_updates_offset, List.getElem?_cons_zero, Option.some.injEq] at hu
    subst hu
    simp only [applyUpd]; omega
  have h3 : ∀ u, (tlv_unpackSubfieldsByTag_updates_offset ((offset + read : Nat) : Int) data.length 0 read' 0 0)[2]? = some u →
      (applyUpd u ((offset + read : Nat) : Int)).toNat = offset + read + read' := by
    intro u hu
    simp only [tlv_unpackSubfieldsByTag_updates_offset, List.getElem?_cons_succ, List.getElem?_cons_zero, Option.some.injEq] at hu
    subst hu
    simp only [applyUpd]; omega
  rw [h1 _ rfl, h3 _ rfl]
  simp only [tlvLoop, hlt, if_false, hd, hk, Bool.not_true, Bool.false_eq_true, hle, hv, hp]

/-- `unpackSubfieldsByTag`, an unknown tag that is skipped: the offset moves by the bytes of the
tag and then by the announced length plus the bytes of its prefix (second assignment) -/
theorem tlv_skip_step_translated (t : TagSpec) (enc : Enc) (isBer : Bool) (known : Tag → Bool)
    (dispatch : Tag → Bytes → UR (Value × Nat)) (fuel : Nat) (data : Bytes) (offset : Nat) (acc : List (Tag × Value))
    (tagBytes : Bytes) (read : Nat) (fieldLength read' : Nat)
    (hlt : ¬ offset ≥ data.length)
    (hd : Enc.decode enc (data.drop offset) t.len = .ok (tagBytes, read))
    (hk : known (t.pad.unpad tagBytes) = false)
    (hs : (t.skipUnknown && (isBer || t.prefUnknown.isSome)) = true) (hle : ¬ offset + read > data.length)
    (hl : (match t.prefUnknown with | some p => (p, maxInt) | Option.none => (Pref.berTLV, 0)).1.decodeLength
            (match t.prefUnknown with | some p => (p, maxInt) | Option.none => (Pref.berTLV, 0)).2 (data.drop (offset + read)) = .ok (fieldLength, read'))
    (hfit : ¬ (fieldLength > data.length - (offset + read) - read' ∨ offset + read + read' > data.length)) :
    ∃ u1 u2, (tlv_unpackSubfieldsByTag_updates_offset offset data.length 0 read 0 0)[0]? = some u1 ∧
      (tlv_unpackSubfieldsByTag_updates_offset (applyUpd u1 offset) data.length fieldLength read' 0 0)[1]? = some u2 ∧
      tlvLoop t enc isBer known dispatch (fuel + 1) data offset acc =
        tlvLoop t enc isBer known dispatch fuel data (applyUpd u2 (applyUpd u1 offset)).toNat acc := by
  refine ⟨_, _, rfl, rfl, ?_⟩
  have h1 : ∀ u, (tlv_unpackSubfieldsByTag_updates_offset offset data.length 0 read 0 0)[0]? = some u →
      applyUpd u (offset : Int) = ((offset + read : Nat) : Int) := by
    intro u hu
    simp only [tlv_unpackSubfieldsByTag_updates_offset, List.getElem?_cons_zero, Option.some.injEq] at hu
    subst hu
    simp only [applyUpd]; omega
  have h2 : ∀ u, (tlv_unpackSubfieldsByTag_updates_offset ((offset + read : Nat) : Int) data.length fieldLength read' 0 0)[1]? = some u →
      (applyUpd u ((offset + read : Nat) : Int)).toNat = offset + read + fieldLength + read' := by
    intro u hu
    simp only [tlv_unpackSubfieldsByTag_updates_offset, List.getElem?_cons_succ, List.getElem?_cons_zero, Option.some.injEq] at hu
    subst hu
    simp only [applyUpd]; omega
  rw [h1 _ rfl, h2 _ rfl]
  cases hpu : t.prefUnknown with
  | none =>
    simp only [hpu] at hl
    simp only [hpu, Option.isSome_none, Bool.or_false, Bool.and_eq_true] at hs
    simp [tlvLoop, hlt, hd, hk, hs.1, hs.2, hle, hpu, hl, hfit]
  | some p =>
    simp only [hpu] at hl
    simp only [hpu, Option.isSome_some, Bool.or_true, Bool.and_true] at hs
    simp [tlvLoop, hlt, hd, hk, hs, hle, hpu, hl, hfit]

/-- `unpackSubfieldsByBitmap`: a set bit moves the offset by the bytes its subfield reported (the
second assignment to `off`; the first adds the bytes of the bitmap) -/
theorem bitmapScan_set_translated (bm : Bitmap) (dispatch : Tag → Bytes → Option (UR (Value × Nat)))
    (n i : Nat) (data : Bytes) (off : Nat) (acc : List (Tag × Value)) (v : Value) (read : Nat)
    (hs : bm.isSet i = true) (ho : ¬ off > data.length)
    (hv : dispatch (natToDec i) (data.drop off) = some (.ok (v, read))) :
    ∃ u, (bitmapped_unpackSubfieldsByBitmap_updates_off off read)[1]? = some u ∧
      bitmapped_unpackSubfieldsByBitmap_init_off 0 0 = [0] ∧
      bitmapScan bm dispatch (n + 1) i data off acc =
        bitmapScan bm dispatch n (i + 1) data (applyUpd u off).toNat (acc ++ [(natToDec i, v)]) := by
  refine ⟨_, rfl, rfl, ?_⟩
  have h1 : ∀ u, (bitmapped_unpackSubfieldsByBitmap_updates_off off read)[1]? = some u →
      (applyUpd u (off : Int)).toNat = off + read := by
    intro u hu
    simp only [bitmapped_unpackSubfieldsByBitmap_updates_off, List.getElem?_cons_succ, List.getElem?_cons_zero, Option.some.injEq] at hu
    subst hu
    simp only [applyUpd]; omega
  rw [h1 _ rfl]
  simp [bitmapScan, hs, ho, hv]

/-- `unpackSubfields` (positional composite): the subfield is decoded from `data[offset:]`, the
offset moves by the bytes it reported, and the loop is left exactly under the source's `break`
condition (a variable-length composite whose bytes are used up), read with the NEW offset -/
theorem positional_step_translated (tag : Tag) (f : Field) (rest : List (Tag × Field)) (data : Bytes) (isVar : Bool)
    (offset : Nat) (acc : List (Tag × Value)) (v : Value) (read : Nat) (ho : ¬ offset > data.length)
    (hv : f.unpack (data.drop offset) = .ok (v, read)) :
    ∃ u, (positional_unpackSubfields_updates_offset offset read data.length isVar true)[0]? = some u ∧
      positional_unpackSubfields_init_offset 0 0 0 isVar true = [0] ∧
      unpackPositional ((tag, f) :: rest) data isVar offset acc =
        if (positional_unpackSubfields_breaks (applyUpd u offset) read data.length isVar true).any id
        then .ok (acc ++ [(tag, v)], (applyUpd u offset).toNat)
        else unpackPositional rest data isVar (applyUpd u offset).toNat (acc ++ [(tag, v)]) := by
  refine ⟨_, rfl, rfl, ?_⟩
  have h2 : ∀ u, (positional_unpackSubfields_updates_offset offset read data.length isVar true)[0]? = some u →
      applyUpd u (offset : Int) = ((offset + read : Nat) : Int) := by
    intro u hu
    simp only [positional_unpackSubfields_updates_offset, List.getElem?_cons_zero, Option.some.injEq] at hu
    subst hu
    simp only [applyUpd]; omega
  have hbr : (positional_unpackSubfields_breaks ((offset + read : Nat) : Int) read data.length isVar true).any id = true ↔
      (isVar = true ∧ offset + read ≥ data.length) := by
    unfold positional_unpackSubfields_breaks
    cases isVar <;> guards_to_prop <;> guards_done
  have h1 : (((offset + read : Nat) : Int)).toNat = offset + read := by omega
  rw [h2 _ rfl, h1]
  simp only [unpackPositional, ho, if_false, hv]
  by_cases hb : (isVar = true ∧ offset + read ≥ data.length)
  · rw [if_pos (hbr.mpr hb)]
    simp [hb.1, hb.2]
  · rw [if_neg (fun h => hb (hbr.mp h))]
    cases isVar
    · simp
    · have : ¬ offset + read ≥ data.length := fun h => hb ⟨rfl, h⟩
      simp [this]

/-- `Bitmap.Unpack`: `read` starts at 0, every block adds the bytes the decoder reported, and the
next block is decoded from `data[read:]` -/
theorem bitmap_unpack_read_translated (read r : Nat) :
    ∃ u, (bitmap_Unpack_updates_read read r 0)[0]? = some u ∧ (applyUpd u read).toNat = read + r ∧
      bitmap_Unpack_init_read 0 0 0 = [0] ∧
      bitmap_Unpack_slices read r 0 = [[(read : Int), -1]] := by
  refine ⟨_, rfl, ?_, rfl, rfl⟩
  simp only [applyUpd]; omega

/-! ### non-vacuity: concrete inputs that meet the hypotheses -/

example : decodeLength (.var .ascii 2) 99 [0x31, 0x32, 0x41] = .ok (12, 2) := by decide
example : firstRet (ascii_DecodeLength_returns 99 3 2 12) = some [12, 2] := by decide
example : decodeLength .berTLV 0 [0x81, 0x80] = .ok (128, 2) := by decide
example : firstRet (ber_DecodeLength_returns 0 0x81 128) = some [128, 2] := by decide
example : firstRet (bcd_Decode_returns 3 2) = some [2] := by decide
example : one (firstRet (track2_Unpack_args_spec_Enc_Decode 37 1 0 0 true)) = some 38 ∧
    one (firstRet (track2_Unpack_args_spec_Enc_Decode 37 1 0 0 false)) = some 37 ∧
    one (firstRet (track2_Unpack_args_spec_Enc_Decode 36 1 0 0 true)) = some 36 := by decide

example : (message_unpack_updates_off 10 4).map (fun u => applyUpd u 10) = [4, 14, 14] ∧ message_unpack_init_off 0 0 = [0] := by decide
example : (positional_unpackSubfields_breaks 6 2 6 true true).any id = true ∧
    (positional_unpackSubfields_breaks 5 2 6 true true).any id = false ∧
    (positional_unpackSubfields_breaks 6 2 6 false true).any id = false := by decide

end Iso8583.GuardsReturns
