/-
C04 (allocation part) — the TOTAL of the sizes requested by a whole nested unpack is linear in
the input.

`C04.alloc_bounded` bounds every single request (≤ 2·bytes available + 127). It says nothing
about the SUM over the iterations of the composite loops; the repaired finding KF7 (the Binary
decoder copied the whole remaining input once per TLV element: quadratic in total) satisfied it.
Here the whole nested unpack has one ghost log — `Field.unpackAllocs f data`,
`MsgSpec.unpackAllocs spec src` (Model/Alloc.lean; helper lemmas Lemmas/Alloc.lean) — and its
sum is bounded:

    f.allocOK  →  (Field.unpackAllocs f data).sum ≤ 144·|data| + 127          (`unpack_total_alloc_le`)
    f.allocOK  →  f.unpack data = ok (v, read)  →  … ≤ 144·read               (`unpack_total_alloc_ok`)

for every spec tree (all three composite modes, any nesting, coherent or not) and every input,
errors included (the log stops where the unpack stops). 144 per byte: a bitmapped composite's
bitmap may cost 127 (its prefix decode, e.g. the BER long-form length buffer) + 12 per bitmap
byte, and reads at least one byte; everything else costs ≤ 8 per byte it reads. 127: the one
request that may precede an error (BER length buffer allocated before its bytes are known to
be there). No iteration count is needed: every request of a successful step is paid for by the
bytes that step reads, so zero-progress iterations (were they possible) are free.

WHAT IS PARTIAL, and why.

1. The requested statement — `unpack_total_alloc_linearStatement c₁ c₂`:
   `∀ f data, (Field.unpackAllocs f data).sum ≤ c₁·|data| + c₂·f.size` with NO condition on the
   spec — is FALSE in the model for every choice of constants
   (`unpack_total_alloc_linear_witness : ∀ c₁ c₂, ¬ …`): the model's `Pref.var .binary 0` reads no byte, announces
   length 0 and still requests its 8-byte conversion buffer. A TLV loop whose element is a
   positional composite of k such zero-width subfields requests 8·k per element and an element
   is one tag byte: 8·k·|data| in total, not linear in |data| + size (size = k + 2). (A
   positional composite alone visits each node once — that is what the `c₂·f.size` term would
   pay — but a TLV loop revisits the same subtree once per element.) `Pref.var .binary 0` is not
   a prefixer of package `prefix` (digit counts 1..6, `C06.exported_var_digits`) and cannot be
   built outside it; `C04.tlvLoop_fuel_enough` excludes the same family for the same reason.
   So the theorem carries the side condition `Field.allocOK` (Model/Alloc.lean):
     * no field prefixer and no unknown-tag prefixer is `Pref.var .binary 0`;
     * a bitmap prefixer is not a variable prefixer of more than 42 digits. (A bitmap's length
       prefix is decoded and then its bytes are read AGAIN as bitmap data, so its cost is not
       paid by bytes read; it must be bounded by a constant. With d unbounded, nesting
       bitmapped composites with d, d−1, … digit prefixers costs ~3·|data|²/2: a second model
       counterexample to the unconditional statement, `nested_bitmap_prefix_quadratic_witness`.)
   `allocOK_of_exported`: every spec written with exported prefixers satisfies it. Under it the
   `c₂·f.size` term is not needed at all; `unpack_total_alloc_linear_partial` restates the bound
   in the requested shape.

2. The bitmap chain is logged AMORTISED (`Bitmap.unpackAllocsA`, Model/Alloc.lean), not with
   `Bitmap.unpackAllocs` of Lemmas/NoPanic.lean: that log charges every
   `f.data = append(f.data, decoded...)` as a fresh allocation of the whole new length, which is
   the right over-approximation for a per-request bound and quadratic as a sum
   (`bitmap_perAppend_log_quadratic_witness`: 1-byte blocks, 16 → 152, 32 → 560, 64 → 2144).
   The amortised log tracks the slice capacity and logs a request only when `append` must grow,
   of size max(new length, 2·capacity). MODELLING ASSUMPTION (not proved against the runtime):
   that is Go's `growslice` rule below 256 elements; above it the runtime grows by 1.25×+192,
   also geometric; size-class rounding is ignored. The per-request bound of `alloc_bounded`
   still holds for the amortised log (`bitmap_amortised_request_bounded`, 4·|data| + 127).

3. Time/space are ghost quantities of the model (requested sizes), not allocator behaviour.
-/
import Iso8583.Lemmas.Alloc
import Iso8583.Props.C04

namespace Iso8583.C04Alloc
open Iso8583

/-! ## 1. The log is the log of `Field.unpack`

`Field.unpackAllocs` is defined by the same mutual structural recursion as `Field.unpack`, with
the same fuel loops, and every branch is decided by the real unpack functions. The equations
below are the contract between the two: a primitive's log is `PrimSpec.unpackAllocs`; a
composite's is its own prefix decode followed by the log of its body; and in each of the loops,
a step that unpacked a subfield successfully contributes exactly that subfield's own log on the
sub-slice it was given, followed by the log of the rest of the loop from the offset the real
unpack moved to. A step that fails contributes its log and nothing after it. -/

/-- a primitive field's log IS `PrimSpec.unpackAllocs` -/
theorem unpackAllocs_prim (s : PrimSpec) (data : Bytes) :
    (Field.prim s).unpackAllocs data = s.unpackAllocs data := by
  simp only [Field.unpackAllocs]

/-- a composite's log: its own length-prefix decode, then — exactly when `Field.unpack` gets
as far as the body (`Field.unpack_comp`: same prefix result, same two guards, same slice, same
`isVariableLength`) — the log of `compBody` on the length-delimited body -/
theorem unpackAllocs_comp (s : CompSpec) (subs : List (Tag × Field)) (data : Bytes) :
    (Field.comp s subs).unpackAllocs data =
      s.pref.decodeAllocs data ++
      match s.pref.decodeLength s.len data with
      | .err => []
      | .panic => []
      | .ok (dataLen, offset) =>
        if offset > data.length then []
        else if dataLen > data.length - offset then []
        else compBodyAllocs s.mode subs ((data.drop offset).take dataLen) (offset != 0) :=
  Field.unpackAllocs_comp s subs data

/-- … and `Field.unpack` of the composite, in the same shape -/
theorem unpack_comp (s : CompSpec) (subs : List (Tag × Field)) (data : Bytes) :
    (Field.comp s subs).unpack data =
      match s.pref.decodeLength s.len data with
      | .err => .err []
      | .panic => .panic
      | .ok (dataLen, offset) =>
        if offset > data.length then .panic
        else if dataLen > data.length - offset then .err []
        else
          match compBody s.mode subs ((data.drop offset).take dataLen) (offset != 0) with
          | .err p => .err p
          | .panic => .panic
          | .ok (vals, read) =>
            if dataLen ≠ read then .err [] else .ok (.comp (orderBySpec subs vals), offset + read) :=
  Field.unpack_comp s subs data

/-- the dispatcher's log is the log of the subfield spec the dispatcher picks: the first entry
of `subs` keyed `tag` — for `unpackTagged` (TLV) and `unpackTaggedOpt` (bitmapped) alike -/
theorem dispatch_log (subs : List (Tag × Field)) (tag : Tag) (f : Field) (data : Bytes)
    (h : lookup tag subs = some f) :
    unpackTaggedAllocs subs tag data = f.unpackAllocs data ∧
    unpackTagged subs tag data = f.unpack data ∧
    unpackTaggedOpt subs tag data = some (f.unpack data) := by
  induction subs with
  | nil => simp [lookup] at h
  | cons hd tl ih =>
    obtain ⟨k, g⟩ := hd
    simp only [lookup] at h
    simp only [unpackTaggedAllocs, unpackTagged, unpackTaggedOpt]
    split at h
    · rename_i hk
      simp only [Option.some.injEq] at h
      subst h
      simp only [if_pos hk, and_self]
    · rename_i hk
      simp only [if_neg hk]
      exact ih h

/-- **positional step**: a subfield that unpacked contributes its own log on the slice it was
given (`data.drop offset`), then the loop goes on where `unpackPositional` goes on -/
theorem positional_log_step (tag : Tag) (f : Field) (rest : List (Tag × Field)) (data : Bytes)
    (isVar : Bool) (offset : Nat) (v : Value) (read : Nat) (ho : offset ≤ data.length)
    (hu : f.unpack (data.drop offset) = .ok (v, read)) :
    unpackPositionalAllocs ((tag, f) :: rest) data isVar offset =
      f.unpackAllocs (data.drop offset) ++
        (if isVar && offset + read ≥ data.length then []
         else unpackPositionalAllocs rest data isVar (offset + read)) ∧
    ∀ acc, unpackPositional ((tag, f) :: rest) data isVar offset acc =
        (if isVar && offset + read ≥ data.length then .ok (acc ++ [(tag, v)], offset + read)
         else unpackPositional rest data isVar (offset + read) (acc ++ [(tag, v)])) := by
  have ho2 : ¬ (offset > data.length) := by omega
  constructor
  · simp only [unpackPositionalAllocs, if_neg ho2, hu]
  · intro acc
    simp only [unpackPositional, if_neg ho2, hu]

/-- a subfield that failed ends the log -/
theorem positional_log_stop (tag : Tag) (f : Field) (rest : List (Tag × Field)) (data : Bytes)
    (isVar : Bool) (offset : Nat) (p : List Bytes) (ho : offset ≤ data.length)
    (hu : f.unpack (data.drop offset) = .err p) :
    unpackPositionalAllocs ((tag, f) :: rest) data isVar offset = f.unpackAllocs (data.drop offset) := by
  have ho2 : ¬ (offset > data.length) := by omega
  simp only [unpackPositionalAllocs, if_neg ho2, hu, List.append_nil]

/-- **TLV step, known tag**: the tag decode, the dispatched subfield's log on the slice after
the tag, then the loop from the offset `tlvLoop` moves to -/
theorem tlv_log_step (t : TagSpec) (enc : Enc) (isBer : Bool) (known : Tag → Bool)
    (dispatch : Tag → Bytes → UR (Value × Nat)) (da : Tag → Bytes → List Nat)
    (fuel : Nat) (data : Bytes) (offset : Nat) (tagBytes : Bytes) (read : Nat) (v : Value) (read' : Nat)
    (hlt : offset < data.length)
    (hdec : Enc.decodeNat enc (data.drop offset) t.len = .ok (tagBytes, read))
    (hk : known (t.pad.unpad tagBytes) = true)
    (hd : dispatch (t.pad.unpad tagBytes) (data.drop (offset + read)) = .ok (v, read'))
    (hprog : ¬ (read = 0 ∧ read' = 0)) :
    tlvLoopAllocs t enc isBer known dispatch da (fuel + 1) data offset =
      Enc.decodeAllocs enc (data.drop offset) t.len ++
        (da (t.pad.unpad tagBytes) (data.drop (offset + read)) ++
          tlvLoopAllocs t enc isBer known dispatch da fuel data (offset + read + read')) ∧
    ∀ acc, tlvLoop t enc isBer known dispatch (fuel + 1) data offset acc =
      tlvLoop t enc isBer known dispatch fuel data (offset + read + read')
        (insertKV (t.pad.unpad tagBytes) v acc) := by
  have hge : ¬ (offset ≥ data.length) := by omega
  have hrl := decodeNat_read_le _ _ _ _ _ hdec
  simp only [List.length_drop] at hrl
  have ho2 : ¬ (offset + read > data.length) := by omega
  have hk' : ¬ ((!known (t.pad.unpad tagBytes)) = true) := by simp [hk]
  constructor
  · simp only [tlvLoopAllocs, if_neg hge, Enc.decode_natCast, hdec, if_neg hk', if_neg ho2, hd, if_neg hprog]
  · intro acc
    simp only [tlvLoop, if_neg hge, Enc.decode_natCast, hdec, if_neg hk', if_neg ho2, hd, if_neg hprog]

/-- **bitmapped step**: a set bit contributes the log of the subfield keyed by its number on
the slice at the current offset -/
theorem bitmapScan_log_step (bm : Bitmap) (dispatch : Tag → Bytes → Option (UR (Value × Nat)))
    (da : Tag → Bytes → List Nat) (remaining i : Nat) (data : Bytes) (off : Nat) (v : Value) (read : Nat)
    (ho : off ≤ data.length) (hset : bm.isSet i = true)
    (hd : dispatch (natToDec i) (data.drop off) = some (.ok (v, read))) :
    bitmapScanAllocs bm dispatch da (remaining + 1) i data off =
      da (natToDec i) (data.drop off) ++ bitmapScanAllocs bm dispatch da remaining (i + 1) data (off + read) ∧
    ∀ acc, bitmapScan bm dispatch (remaining + 1) i data off acc =
      bitmapScan bm dispatch remaining (i + 1) data (off + read) (acc ++ [(natToDec i, v)]) := by
  have ho2 : ¬ (off > data.length) := by omega
  constructor
  · simp only [bitmapScanAllocs, if_pos hset, if_neg ho2, hd]
  · intro acc
    simp only [bitmapScan, if_pos hset, if_neg ho2, hd]

/-- an unset bit contributes nothing -/
theorem bitmapScan_log_skip (bm : Bitmap) (dispatch : Tag → Bytes → Option (UR (Value × Nat)))
    (da : Tag → Bytes → List Nat) (remaining i : Nat) (data : Bytes) (off : Nat)
    (hset : bm.isSet i = false) :
    bitmapScanAllocs bm dispatch da (remaining + 1) i data off =
      bitmapScanAllocs bm dispatch da remaining (i + 1) data off := by
  have : ¬ (bm.isSet i = true) := by simp [hset]
  simp only [bitmapScanAllocs, if_neg this]

/-- **message scan step**: only a SET, non-presence bit decodes a field, and contributes that
field's own log on `src.drop off` -/
theorem scan_log_step (spec : MsgSpec) (bm : Bitmap) (remaining i : Nat) (src : Bytes) (off : Nat)
    (f : Field) (v : Value) (read : Nat) (ho : off ≤ src.length)
    (hpb : bm.isPresenceBit i = false) (hset : bm.isSet i = true)
    (hl : lookupId i spec.fields = some f) (hu : f.unpack (src.drop off) = .ok (v, read)) :
    MsgSpec.scanAllocs spec bm (remaining + 1) i src off =
      f.unpackAllocs (src.drop off) ++ MsgSpec.scanAllocs spec bm remaining (i + 1) src (off + read) ∧
    ∀ acc, MsgSpec.scan spec bm (remaining + 1) i src off acc =
      MsgSpec.scan spec bm remaining (i + 1) src (off + read) (acc ++ [(i, v)]) := by
  have ho2 : ¬ (off > src.length) := by omega
  have hpb' : ¬ (bm.isPresenceBit i = true) := by simp [hpb]
  constructor
  · simp only [MsgSpec.scanAllocs, if_neg hpb', if_pos hset, hl, if_neg ho2, hu]
  · intro acc
    simp only [MsgSpec.scan, if_neg hpb', if_pos hset, hl, if_neg ho2, hu]

/-- a bit that is not set (or is a continuation bit) costs nothing: the scan's up to
`16·|src|` iterations (`C04.scan_steps`) do not appear in the total -/
theorem scan_log_skip (spec : MsgSpec) (bm : Bitmap) (remaining i : Nat) (src : Bytes) (off : Nat)
    (h : bm.isPresenceBit i = true ∨ bm.isSet i = false) :
    MsgSpec.scanAllocs spec bm (remaining + 1) i src off =
      MsgSpec.scanAllocs spec bm remaining (i + 1) src off := by
  simp only [MsgSpec.scanAllocs]
  by_cases hpb : bm.isPresenceBit i = true
  · simp only [if_pos hpb]
  · have hs : ¬ (bm.isSet i = true) := by
      rcases h with h | h
      · exact absurd h hpb
      · simp [h]
    simp only [if_neg hpb, if_neg hs]

/-! ## 2. The linear total -/

/-- **Linear total, whatever happens.** Every spec tree satisfying `allocOK` (positional,
tagged and bitmapped composites, any nesting; no coherence assumed), every input: everything
requested until the unpack returns — value or error — sums to at most 144 per input byte,
plus 127. -/
theorem unpack_total_alloc_le (f : Field) (data : Bytes) (hf : f.allocOK = true) :
    (Field.unpackAllocs f data).sum ≤ 144 * data.length + 127 :=
  (Field.allocLinear f hf).1 data

/-- **Linear total of a successful unpack**: 144 per byte READ (not per byte available), no
additive constant. This is the form that composes through the loops. -/
theorem unpack_total_alloc_ok (f : Field) (data : Bytes) (v : Value) (read : Nat)
    (hf : f.allocOK = true) (h : f.unpack data = .ok (v, read)) :
    (Field.unpackAllocs f data).sum ≤ 144 * read :=
  (Field.allocLinear f hf).2 data v read h

theorem size_pos (f : Field) : 1 ≤ f.size := by
  cases f with
  | prim s => simp [Field.size]
  | comp s subs => simp only [Field.size]; omega

/-- the requested statement: a linear bound in the input length and the number of nodes of the
spec tree, for ALL specs -/
def unpack_total_alloc_linearStatement (c₁ c₂ : Nat) : Prop :=
  ∀ (f : Field) (data : Bytes), (Field.unpackAllocs f data).sum ≤ c₁ * data.length + c₂ * f.size

/-- **the requested statement, for specs satisfying `allocOK`** (c₁ = 144, c₂ = 127) -/
theorem unpack_total_alloc_linear_partial (f : Field) (data : Bytes) (hf : f.allocOK = true) :
    (Field.unpackAllocs f data).sum ≤ 144 * data.length + 127 * f.size := by
  have h1 := unpack_total_alloc_le f data hf
  have h2 := size_pos f
  omega

/-- **Messages**: MTI, bitmap, and the scan loop; the up to `16·|src|` scan iterations cost
nothing, only set bits decode a field -/
theorem msg_unpack_total_alloc_le (spec : MsgSpec) (src : Bytes) (hs : spec.allocOK = true) :
    (spec.unpackAllocs src).sum ≤ 144 * src.length + 127 :=
  (MsgSpec.unpackAllocs_sum spec src hs).1

theorem msg_unpack_total_alloc_ok (spec : MsgSpec) (src : Bytes) (m : Msg) (read : Nat)
    (hs : spec.allocOK = true) (h : spec.unpack src = .ok (m, read)) :
    (spec.unpackAllocs src).sum ≤ 144 * read :=
  (MsgSpec.unpackAllocs_sum spec src hs).2 m read h

theorem msg_unpack_total_alloc_linear_partial (spec : MsgSpec) (src : Bytes) (hs : spec.allocOK = true) :
    (spec.unpackAllocs src).sum ≤ 144 * src.length + 127 * spec.size := by
  have h1 := msg_unpack_total_alloc_le spec src hs
  have h2 : 2 ≤ spec.size := by simp only [MsgSpec.size]; omega
  omega

/-! ## 3. The side condition -/

/-- every exported prefixer (the regenerated table of C06) passes both prefixer checks of
`allocOK`: its digit count is 1..6 -/
theorem allocOK_of_exported (p : Pref) (h : C06.Exported p) :
    p.posBinary = true ∧ p.shortDigits = true := by
  cases p with
  | fixed f => exact ⟨rfl, rfl⟩
  | none => exact ⟨rfl, rfl⟩
  | berTLV => exact ⟨rfl, rfl⟩
  | var f d =>
    obtain ⟨h1, h6⟩ := C06.exported_var_digits f d h
    constructor
    · cases d with
      | zero => omega
      | succ d => cases f <;> rfl
    · simp only [Pref.shortDigits, decide_eq_true_eq]
      omega

/-- the amortised bitmap log keeps the per-request bound of `C04.alloc_bounded` -/
theorem bitmap_amortised_request_bounded (enc : Enc) (pref : Pref) (bm : Bitmap) (data : Bytes) :
    ∀ a ∈ Bitmap.unpackAllocsA enc pref bm data, a ≤ 4 * data.length + 127 :=
  Bitmap.unpackAllocsA_le enc pref bm data

/-! ## 4. Witnesses -/

/-- a zero-width field with the (non-exported) prefixer `Pref.var .binary 0`: reads nothing,
requests 8 bytes -/
def zeroPrim : Field :=
  .prim { kind := .string, len := 0, enc := .ascii, pref := .var .binary 0, pad := .nil }

/-- a fixed-length-0 positional composite of `k` such fields: reads nothing, requests `8·k` -/
def zeroRow (k : Nat) : Field :=
  .comp { len := 0, pref := .fixed .ascii,
          mode := .tagged { len := 0, enc := Option.none, pad := .nil, sort := .strings,
                            skipUnknown := false, prefUnknown := Option.none } }
    (List.replicate k ([], zeroPrim))

def zeroTagT : TagSpec :=
  { len := 1, enc := some .ascii, pad := .nil, sort := .strings, skipUnknown := false,
    prefUnknown := Option.none }

/-- a TLV composite (1-byte ASCII tags, body = whole input) whose only element `"A"` is `zeroRow k` -/
def zeroTlv (k : Nat) : Field :=
  .comp { len := 0, pref := .none, mode := .tagged zeroTagT } [([65], zeroRow k)]

theorem sizeList_replicate (k : Nat) : Field.sizeList (List.replicate k ([], zeroPrim)) = k := by
  induction k with
  | zero => simp [Field.sizeList]
  | succ k ih =>
    have h1 : zeroPrim.size = 1 := rfl
    simp only [List.replicate_succ, Field.sizeList, ih, h1]; omega

theorem zeroTlv_size (k : Nat) : (zeroTlv k).size = k + 2 := by
  simp only [zeroTlv, zeroRow, Field.size, Field.sizeList, sizeList_replicate]
  omega

theorem positional_zero (k : Nat) : ∀ acc,
    (unpackPositionalAllocs (List.replicate k ([], zeroPrim)) [] false 0).sum = 8 * k ∧
    ∃ vals, unpackPositional (List.replicate k ([], zeroPrim)) [] false 0 acc = .ok (vals, 0) := by
  induction k with
  | zero => intro acc; simp [unpackPositionalAllocs, unpackPositional]
  | succ k ih =>
    intro acc
    have hu : zeroPrim.unpack (([] : Bytes).drop 0) = .ok (.str [], 0) := rfl
    have hl : zeroPrim.unpackAllocs (([] : Bytes).drop 0) = [8, 0] := by decide
    obtain ⟨e1, e2⟩ := positional_log_step [] zeroPrim (List.replicate k ([], zeroPrim)) [] false 0
      (.str []) 0 (Nat.le_refl _) hu
    obtain ⟨i1, vals, i2⟩ := ih (acc ++ [([], .str [])])
    rw [List.replicate_succ, e1, e2 acc, hl]
    simp only [Bool.false_and, Bool.false_eq_true, if_false, Nat.add_zero, List.sum_append_nat, List.sum_cons,
      List.sum_nil, i1]
    exact ⟨by omega, vals, i2⟩

theorem zeroRow_unpack (k : Nat) (d : Bytes) :
    ((zeroRow k).unpackAllocs d).sum = 8 * k ∧ ∃ v, (zeroRow k).unpack d = .ok (v, 0) := by
  obtain ⟨i1, vals, i2⟩ := positional_zero k []
  have hdl : Pref.decodeLength (.fixed .ascii) 0 d = .ok (0, 0) := rfl
  have hda : Pref.decodeAllocs (.fixed .ascii) d = [] := rfl
  constructor
  · simp only [zeroRow, unpackAllocs_comp, hdl, hda, compBodyAllocs]
    simpa using i1
  · simp only [zeroRow, unpack_comp, hdl, compBody]
    simp [i2]

/-- on `n` bytes `"A"`: `n` elements, each one tag byte (request 1) and a visit of the `k`
zero-width fields (request `8·k`) -/
theorem tlv_zero (k n : Nat) : ∀ (j fuel : Nat), j ≤ n → j ≤ fuel →
    (tlvLoopAllocs zeroTagT .ascii false (lookupField [([65], zeroRow k)])
      (fun tag d => unpackTagged [([65], zeroRow k)] tag d)
      (fun tag d => unpackTaggedAllocs [([65], zeroRow k)] tag d) fuel (List.replicate n 65) (n - j)).sum
      = j * (1 + 8 * k) := by
  intro j
  induction j with
  | zero =>
    intro fuel _ _
    cases fuel with
    | zero => simp [tlvLoopAllocs]
    | succ fuel => simp [tlvLoopAllocs]
  | succ j ih =>
    intro fuel hn hf
    cases fuel with
    | zero => omega
    | succ fuel =>
      have hdrop : (List.replicate n (65 : UInt8)).drop (n - (j + 1)) = 65 :: List.replicate j 65 := by
        rw [List.drop_replicate]
        have : n - (n - (j + 1)) = j + 1 := by omega
        rw [this, List.replicate_succ]
      have hdec : Enc.decodeNat .ascii ((List.replicate n (65 : UInt8)).drop (n - (j + 1))) zeroTagT.len
          = .ok ([65], 1) := by
        rw [hdrop]
        simp [Enc.decodeNat, zeroTagT, Enc.asciiOK]
      have eo : n - (j + 1) + 1 = n - j := by omega
      obtain ⟨hsum, v, hv⟩ := zeroRow_unpack k ((List.replicate n (65 : UInt8)).drop (n - j))
      have hd : (fun tag d => unpackTagged [([65], zeroRow k)] tag d) (zeroTagT.pad.unpad [65])
          ((List.replicate n (65 : UInt8)).drop (n - (j + 1) + 1)) = .ok (v, 0) := by
        rw [eo]
        simp only [unpackTagged, zeroTagT, Pad.unpad, if_true]
        exact hv
      obtain ⟨e1, _⟩ := tlv_log_step zeroTagT .ascii false (lookupField [([65], zeroRow k)])
        (fun tag d => unpackTagged [([65], zeroRow k)] tag d)
        (fun tag d => unpackTaggedAllocs [([65], zeroRow k)] tag d) fuel (List.replicate n 65) (n - (j + 1))
        [65] 1 v 0 (by simp only [List.length_replicate]; omega) hdec (by rfl) hd (by omega)
      rw [Nat.add_zero, eo] at e1
      have hA : Enc.decodeAllocs .ascii ((List.replicate n (65 : UInt8)).drop (n - (j + 1))) zeroTagT.len = [1] := by
        rw [hdrop]
        simp [Enc.decodeAllocs, zeroTagT]
      have hB : unpackTaggedAllocs [([65], zeroRow k)] (zeroTagT.pad.unpad [65])
          ((List.replicate n (65 : UInt8)).drop (n - j)) =
          (zeroRow k).unpackAllocs ((List.replicate n (65 : UInt8)).drop (n - j)) := by
        simp only [unpackTaggedAllocs, zeroTagT, Pad.unpad, if_true]
      rw [e1, hA, hB, List.sum_append_nat, List.sum_append_nat, hsum, ih fuel (by omega) (by omega)]
      have hm : (j + 1) * (1 + 8 * k) = j * (1 + 8 * k) + (1 + 8 * k) := by
        rw [Nat.add_mul, Nat.one_mul]
      simp only [List.sum_cons, List.sum_nil]
      omega

theorem zeroTlv_total (k n : Nat) :
    ((zeroTlv k).unpackAllocs (List.replicate n 65)).sum = n * (1 + 8 * k) := by
  have hdl : Pref.decodeLength .none 0 (List.replicate n (65 : UInt8)) = .ok (n, 0) := by
    simp [Pref.decodeLength]
  have hda : Pref.decodeAllocs .none (List.replicate n (65 : UInt8)) = [] := rfl
  have hbody : ((List.replicate n (65 : UInt8)).drop 0).take n = List.replicate n 65 := by
    simp
  have ht := tlv_zero k n n (n + 1) (Nat.le_refl _) (by omega)
  rw [Nat.sub_self] at ht
  rw [zeroTlv, unpackAllocs_comp]
  simp only [hdl, hda, List.nil_append]
  have g1 : ¬ (0 > (List.replicate n (65 : UInt8)).length) := by omega
  have g2 : ¬ (n > (List.replicate n (65 : UInt8)).length - 0) := by simp
  rw [if_neg g1, if_neg g2, hbody]
  simp only [compBodyAllocs, zeroTagT, List.length_replicate] at ht ⊢
  exact ht

/-- **the unconditional statement fails in the model, whatever the constants**: `zeroTlv k`
has `k + 2` nodes and requests `n·(1 + 8·k)` on `n` bytes; take `k = c₁ + 1` and
`n = c₂·(k + 2) + 1` -/
theorem unpack_total_alloc_linear_witness (c₁ c₂ : Nat) : ¬ unpack_total_alloc_linearStatement c₁ c₂ := by
  intro h
  have h1 := h (zeroTlv (c₁ + 1)) (List.replicate (c₂ * (c₁ + 3) + 1) 65)
  rw [zeroTlv_total, zeroTlv_size, List.length_replicate] at h1
  have h2 : (c₂ * (c₁ + 3) + 1) * (c₁ + 1) ≤ (c₂ * (c₁ + 3) + 1) * (1 + 8 * (c₁ + 1)) :=
    Nat.mul_le_mul_left _ (by omega)
  have h3 : (c₂ * (c₁ + 3) + 1) * (c₁ + 1) = c₁ * (c₂ * (c₁ + 3) + 1) + (c₂ * (c₁ + 3) + 1) := by
    rw [Nat.mul_add, Nat.mul_one, Nat.mul_comm]
  have h4 : c₁ + 1 + 2 = c₁ + 3 := by omega
  rw [h4] at h1
  omega

/-- zero-width leaf with an ordinary prefixer -/
def leaf : Field :=
  Field.prim { kind := .string, len := 0, enc := .ascii, pref := Pref.fixed .ascii, pad := .nil }

def nestSpec (d : Nat) : CompSpec :=
  { len := 0, pref := Pref.none,
    mode := Mode.bitmapped { specLen := 1, enc := .binary, pref := .var .ebcdic1047 d, auto := false } }

/-- bitmapped composites nested `d` deep, the one at depth `i` with a `(d − i)`-digit EBCDIC
bitmap prefixer (not exported: digit counts are 1..6); subfield 1 is the next level -/
def nest : Nat → Field
  | 0 => leaf
  | d + 1 => Field.comp (nestSpec (d + 1)) [([49], nest d)]

/-- `d` bytes: EBCDIC `0…01` — at every level a valid `k`-digit prefix announcing block length
1, whose first byte, read again as the 1-byte bitmap, has bit 1 set -/
def nestInput (d : Nat) : Bytes := List.replicate (d - 1) 0xF0 ++ [0xF1]

/-- **why a bitmap prefixer must be short** (second clause of `allocOK`): a bitmap's prefix
bytes are read again as bitmap data, so each level requests `3·(digits)` for one byte
consumed — `~3·d²/2` in total on `d` bytes with a spec of `d + 1` nodes. Doubling `d`
quadruples the total; at `d = 200` it exceeds `144·|data| + 127·size`. -/
theorem nested_bitmap_prefix_quadratic_witness :
    ((nest 50).unpackAllocs (nestInput 50)).sum = 3925 ∧
    ((nest 100).unpackAllocs (nestInput 100)).sum = 15350 ∧
    ((nest 200).unpackAllocs (nestInput 200)).sum = 60700 ∧
    (nest 200).size = 201 ∧ (nestInput 200).length = 200 ∧
    (nest 200).allocOK = false ∧ (nest 42).allocOK = true := by
  decide +kernel

/-- the per-append bitmap log of Lemmas/NoPanic.lean, summed, is quadratic in the number of
chained blocks (1-byte blocks, all continuation bits on): doubling the input quadruples it;
the amortised log doubles -/
theorem bitmap_perAppend_log_quadratic_witness :
    (Bitmap.unpackAllocs .binary (.fixed .binary) (Bitmap.reset 1 true) (List.replicate 16 0xFF)).sum = 152 ∧
    (Bitmap.unpackAllocs .binary (.fixed .binary) (Bitmap.reset 1 true) (List.replicate 32 0xFF)).sum = 560 ∧
    (Bitmap.unpackAllocs .binary (.fixed .binary) (Bitmap.reset 1 true) (List.replicate 64 0xFF)).sum = 2144 ∧
    (Bitmap.unpackAllocsA .binary (.fixed .binary) (Bitmap.reset 1 true) (List.replicate 16 0xFF)).sum = 47 ∧
    (Bitmap.unpackAllocsA .binary (.fixed .binary) (Bitmap.reset 1 true) (List.replicate 32 0xFF)).sum = 95 ∧
    (Bitmap.unpackAllocsA .binary (.fixed .binary) (Bitmap.reset 1 true) (List.replicate 64 0xFF)).sum = 191 := by
  decide +kernel

/-! ## Non-vacuity, and the shape of the repaired defect (KF7)

`demoTlv` of Props/C04.lean (a BER-TLV composite) on `n` elements `9F02 01 00` (tag `9F02`,
length 1, one Binary value byte), behind its BER length prefix. Each element requests 4 (the
hex text of the 2-byte tag) + 1 (the value): 5 per 4 input bytes, whatever `n`. Before the
repair the Binary decoder copied the whole remaining input per element: the 1 was about
`4·(n−i)` for the i-th element, `~2·n²` in total. -/

def tlvElems (n : Nat) : Bytes := (List.replicate n [0x9F, 0x02, 0x01, 0x00]).flatten

example : C04.demoTlv.allocOK = true := by decide +kernel
/-- bytes read by a successful unpack (0 otherwise) -/
def readOf (r : UR (Value × Nat)) : Nat := match r with | .ok (_, n) => n | _ => 0
example : readOf (C04.demoTlv.unpack ([40] ++ tlvElems 10)) = 41 := by decide +kernel
-- n = 10, 20, 40 (the last behind a long-form BER length, which requests its 1-byte buffer): linear
example : (C04.demoTlv.unpackAllocs ([8] ++ tlvElems 2)) = [4, 1, 4, 1] := by decide +kernel
example : (C04.demoTlv.unpackAllocs ([40] ++ tlvElems 10)).sum = 50 := by decide +kernel
example : (C04.demoTlv.unpackAllocs ([80] ++ tlvElems 20)).sum = 100 := by decide +kernel
example : (C04.demoTlv.unpackAllocs ([0x81, 160] ++ tlvElems 40)).sum = 201 := by decide +kernel
-- the theorem applies to these inputs (50 ≤ 144·41 + 127)
example : (C04.demoTlv.unpackAllocs ([40] ++ tlvElems 10)).sum ≤ 144 * ([40] ++ tlvElems 10).length + 127 :=
  unpack_total_alloc_le _ _ (by decide +kernel)
-- the log stops where the unpack stops: the third element is cut short (length 1, no value byte)
example : C04.demoTlv.unpackAllocs ([11] ++ tlvElems 2 ++ [0x9F, 0x02, 0x01]) = [4, 1, 4, 1, 4] := by
  decide +kernel
-- a nested spec through all three modes satisfies the side condition; so does a message spec
example : C04.witnessMsgSpec.allocOK = true := by decide +kernel
-- the excluded prefixer, and what it requests for no byte
example : zeroPrim.allocOK = false := by decide
example : zeroPrim.unpackAllocs [] = [8, 0] := by decide
example : zeroPrim.unpack [] = .ok (.str [], 0) := rfl
example : (zeroTlv 3).unpackAllocs [65, 65] = [1, 8, 0, 8, 0, 8, 0, 1, 8, 0, 8, 0, 8, 0] := by decide +kernel
example : (zeroTlv 3).allocOK = false := by decide +kernel

end Iso8583.C04Alloc
