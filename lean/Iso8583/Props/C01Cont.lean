/-
C01 / C05 for message specs that DEFINE data elements at continuation-bit positions of an
auto-expanding bitmap (65, 129, 193 with 8-byte blocks; 17, 33 with 2-byte blocks). `Coherent`
(K4) excludes such specs; the library accepts them and documents — and tests,
message_test.go — that the element is left out: its bit is the continuation bit. These theorems
state exactly that, for every spec and content, with no coherence assumption on the part that is
left out:

* `pack_ignores_continuation_elements`: Pack returns what it returns for the content without
  those elements (so the bitmap is the minimal chain for the elements that travel: a populated
  element 65 alone never announces a second block);
* `unpack_never_reads_continuation_elements`: Unpack under the spec is Unpack under the spec
  without them;
* `pack_unpack_with_continuation_elements`: the full C01 statement for every spec that is
  coherent once those definitions are removed — unpacking the packed bytes, whatever follows,
  yields the canonical content without them, consumes exactly the bytes produced, and re-packs
  to the identical bytes.
-/
import Iso8583.Lemmas.Continuation
import Iso8583.Props.C01

namespace Iso8583.C01Cont
open Iso8583 MsgSpec

/-- **Pack ignores elements at continuation-bit positions** -/
theorem pack_ignores_continuation_elements (spec : MsgSpec) (m : Msg) :
    spec.pack m = spec.pack (spec.dropCont m) :=
  pack_dropCont spec m

/-- **Unpack never reads an element defined at a continuation-bit position** -/
theorem unpack_never_reads_continuation_elements (spec : MsgSpec) (src : Bytes) :
    spec.unpack src = spec.dropContSpec.unpack src :=
  (unpack_dropContSpec spec src).symm

/-- a continuation-bit position is never an element of an unpacked message -/
theorem pack_eq_pack_without_definitions (spec : MsgSpec) (m : Msg) :
    spec.pack m = spec.dropContSpec.pack (spec.dropCont m) := by
  rw [pack_dropContSpec, ← pack_dropCont]

/-- **C01 with elements defined at continuation-bit positions** -/
theorem pack_unpack_with_continuation_elements (spec : MsgSpec) (m : Msg) (tail bs : Bytes)
    (hc : spec.dropContSpec.coherent = true)
    (hd : spec.dropContSpec.inDomain (spec.dropCont m) = true)
    (hp : spec.pack m = .ok bs) (hlen : bs.length ≤ maxInt) :
    spec.unpack (bs ++ tail) = .ok (spec.dropContSpec.canon (spec.dropCont m), bs.length) ∧
      spec.pack (spec.dropContSpec.canon (spec.dropCont m)) = .ok bs := by
  rw [pack_eq_pack_without_definitions] at hp
  obtain ⟨h1, h2⟩ := C01.pack_unpack spec.dropContSpec (spec.dropCont m) tail bs hc hd hp hlen
  rw [unpack_never_reads_continuation_elements, ← pack_dropContSpec]
  exact ⟨h1, h2⟩

/-! ### non-vacuity: a spec with elements 2, 65 and 66 (8-byte blocks) -/

def fld : Field := .prim { kind := .string, len := 9, enc := .ascii, pref := .var .ascii 2, pad := .nil }
def demoSpec : MsgSpec :=
  { mti := { kind := .string, len := 4, enc := .ascii, pref := .fixed .ascii, pad := .nil },
    bitmap := { specLen := 8, enc := .binary, pref := .fixed .binary, auto := true },
    fields := [(2, fld), (65, fld), (66, fld)] }
def demoMsg : Msg := { mti := some (.str [48, 49, 48, 48]), fields := [(65, .str [66, 66]), (2, .str [65])] }

example : demoSpec.coherent = false := by decide
example : demoSpec.dropContSpec.coherent = true := by decide
example : (demoSpec.dropCont demoMsg).fields.map (·.1) = [2] := by decide
example : demoSpec.dropContSpec.inDomain (demoSpec.dropCont demoMsg) = true := by decide
/-- element 65 populated as the highest element: ONE bitmap block, bit 2 only, body = element 2 -/
example : demoSpec.pack demoMsg = .ok ([48, 49, 48, 48] ++ [0x40, 0, 0, 0, 0, 0, 0, 0] ++ [48, 49, 65]) := by decide

end Iso8583.C01Cont
