/-
Basic definitions shared by the whole model: bytes, outcomes, decimal / hex digit
helpers. Core-only (no Mathlib) so that the line driver links as a `lean_exe`.
-/
namespace Iso8583

abbrev Byte := UInt8
abbrev Bytes := List UInt8

/-- Outcome of a Go function that can fail: `ok`, an ordinary returned `error`,
or a run-time panic (slice out of range, negative `make`, nil map write …). -/
inductive Res (α : Type) where
  | ok : α → Res α
  | err : Res α
  | panic : Res α
deriving Repr, DecidableEq, Inhabited

namespace Res

@[inline] def bind {α β : Type} (x : Res α) (f : α → Res β) : Res β :=
  match x with
  | .ok a => f a
  | .err => .err
  | .panic => .panic

instance : Monad Res where
  pure := Res.ok
  bind := Res.bind

@[simp] theorem bind_ok {α β : Type} (a : α) (f : α → Res β) : (Res.ok a >>= f) = f a := rfl
@[simp] theorem bind_err {α β : Type} (f : α → Res β) : ((Res.err : Res α) >>= f) = .err := rfl
@[simp] theorem bind_panic {α β : Type} (f : α → Res β) : ((Res.panic : Res α) >>= f) = .panic := rfl
@[simp] theorem pure_eq {α : Type} (a : α) : (pure a : Res α) = .ok a := rfl

def isOk {α : Type} : Res α → Bool
  | .ok _ => true
  | _ => false

def isPanic {α : Type} : Res α → Bool
  | .panic => true
  | _ => false

def ofOption {α : Type} : Option α → Res α
  | some a => .ok a
  | none => .err

end Res

/-! ### decimal digits -/

/-- The `d` low-order decimal digits of `n`, most significant first
(`fmt.Sprintf("%0*d", d, n)` for `0 ≤ n < 10^d`). -/
def fixedDec : Nat → Nat → List Nat
  | 0, _ => []
  | d + 1, n => fixedDec d (n / 10) ++ [n % 10]

/-- Value of a most-significant-first digit list in base `b`. -/
def ofDigits (b : Nat) (ds : List Nat) : Nat :=
  ds.foldl (fun acc d => acc * b + d) 0

/-- The `d` low-order base-256 digits of `n`, most significant first (big endian). -/
def fixedBE : Nat → Nat → List Nat
  | 0, _ => []
  | d + 1, n => fixedBE d (n / 256) ++ [n % 256]

/-- The `d` low-order hex digits of `n`, most significant first. -/
def fixedHex : Nat → Nat → List Nat
  | 0, _ => []
  | d + 1, n => fixedHex d (n / 16) ++ [n % 16]

def b (n : Nat) : Byte := UInt8.ofNat n

/-- ASCII digit byte of a digit value `0..9`. -/
def asciiDigit (d : Nat) : Byte := UInt8.ofNat (48 + d)

/-- Upper-case ASCII hex digit of a nibble `0..15`. -/
def hexDigitUpper (d : Nat) : Byte :=
  if d < 10 then UInt8.ofNat (48 + d) else UInt8.ofNat (55 + d)

/-- value of an ASCII decimal digit byte -/
def decVal? (c : Byte) : Option Nat :=
  if 48 ≤ c.toNat ∧ c.toNat ≤ 57 then some (c.toNat - 48) else none

/-- value of an ASCII hex digit byte (either case), as `encoding/hex` and `strconv` accept -/
def hexVal? (c : Byte) : Option Nat :=
  let n := c.toNat
  if 48 ≤ n ∧ n ≤ 57 then some (n - 48)
  else if 65 ≤ n ∧ n ≤ 70 then some (n - 55)
  else if 97 ≤ n ∧ n ≤ 102 then some (n - 87)
  else none

/-- all-or-nothing map -/
def mapM? {α β : Type} (f : α → Option β) : List α → Option (List β)
  | [] => some []
  | x :: xs =>
    match f x, mapM? f xs with
    | some y, some ys => some (y :: ys)
    | _, _ => none

/-- `strconv.Atoi` on a short byte string (no overflow for the ≤ 6-digit inputs used
here; the general overflow rule is modelled where it matters): optional sign, then one
or more decimal digits. -/
def atoi? (s : Bytes) : Option Int :=
  match s with
  | [] => none
  | c :: rest =>
    if c = 43 then -- '+'
      match rest with
      | [] => none
      | _ => (mapM? decVal? rest).map (fun ds => (ofDigits 10 ds : Int))
    else if c = 45 then -- '-'
      match rest with
      | [] => none
      | _ => (mapM? decVal? rest).map (fun ds => - (ofDigits 10 ds : Int))
    else (mapM? decVal? s).map (fun ds => (ofDigits 10 ds : Int))

/-! ### hex text helpers for the line driver -/

def hexOfByte (x : Byte) : List Char :=
  let hi := x.toNat / 16
  let lo := x.toNat % 16
  let c (d : Nat) : Char := if d < 10 then Char.ofNat (48 + d) else Char.ofNat (87 + d)
  [c hi, c lo]

def toHexString (bs : Bytes) : String :=
  if bs.isEmpty then "-" else String.ofList (bs.flatMap hexOfByte)

def hexCharVal? (c : Char) : Option Nat :=
  let n := c.toNat
  if 48 ≤ n ∧ n ≤ 57 then some (n - 48)
  else if 65 ≤ n ∧ n ≤ 70 then some (n - 55)
  else if 97 ≤ n ∧ n ≤ 102 then some (n - 87)
  else none

def parseHexChars : List Char → Option Bytes
  | [] => some []
  | [_] => none
  | c1 :: c2 :: rest =>
    match hexCharVal? c1, hexCharVal? c2, parseHexChars rest with
    | some h, some l, some bs => some (UInt8.ofNat (h * 16 + l) :: bs)
    | _, _, _ => none

def parseHexString (s : String) : Option Bytes :=
  if s = "-" then some [] else parseHexChars s.toList

end Iso8583
