/-
Line-protocol driver: one operation per input line, one canonical result per output
line (DESIGN.md §3.3). The Go harness runs the implementation on the same lines; the
orchestrator diffs the two result streams. Each channel family lives in its own file
under Drivers/ and exports `handle : List String → Option String` (`none` = not mine).
-/
import Iso8583.Drivers.Layers
import Iso8583.Drivers.Fields
import Iso8583.Drivers.Net
import Iso8583.Drivers.History
import Iso8583.Drivers.NoPanic
import Iso8583.Drivers.Marshal
import Iso8583.Drivers.Json
import Iso8583.Drivers.Describe
import Iso8583.Drivers.Spec
import Iso8583.Drivers.Layout
import Iso8583.Drivers.Track
import Iso8583.Drivers.TrackMsg
import Iso8583.Drivers.JsonText

namespace Iso8583.Driver

def handlers : List (List String → Option String) :=
  [ Iso8583.Drivers.Layers.handle,
    Iso8583.Drivers.Fields.handle,
    Iso8583.Drivers.Net.handle,
    Iso8583.Drivers.History.handle,
    Iso8583.Drivers.NoPanic.handle,
    Iso8583.Drivers.Marshal.handle,
    Iso8583.Drivers.Json.handle,
    Iso8583.Drivers.Describe.handle,
    Iso8583.Drivers.Spec.handle,
    Iso8583.Drivers.Layout.handle,
    Iso8583.Drivers.TrackDrv.handle,
    Iso8583.Drivers.TrackMsg.handle,
    Iso8583.Drivers.JsonText.handle ]

def runLine (line : String) : String :=
  let toks := line.splitOn " "
  match handlers.findSome? (fun h => h toks) with
  | some r => r
  | none => "bad-op"

end Iso8583.Driver
