/-
Field- and message-level *statements* shared by several property files (C01, C02, C19),
kept apart from their proofs so that lemma files can be developed against them
independently. Hypotheses are the Boolean predicates of Spec/Coherent.lean.
-/
import Iso8583.Spec.Coherent

namespace Iso8583.C01
open Iso8583

/-- `tail` may be anything unless the field ends in a `None`-prefixed element (which takes
"the rest"): `Field.coherent _ true` is only possible for the last subfield of a
positional composite, whose body is cut to the announced length first. -/
def tailOK (f : Field) (tail : Bytes) : Prop :=
  match f with
  | .prim s => s.pref = .none → tail = []
  | .comp s _ => s.pref = .none → tail = []

/-- **The round-trip statement for one field**: for a coherent spec and an in-domain value
on which Pack succeeds, Unpack of the produced bytes — whatever bytes follow them —
succeeds, yields the value in canonical form, consumes exactly the bytes Pack produced,
and packing the unpacked value returns the identical bytes. -/
def FieldRoundTrip (f : Field) (lastPos : Bool) : Prop :=
  ∀ (v : Value) (tail bs : Bytes),
    f.coherent lastPos = true → f.inDomain v = true → f.pack v = .ok bs → tailOK f tail →
    f.unpack (bs ++ tail) = .ok (f.canon v, bs.length) ∧ f.pack (f.canon v) = .ok bs

/-- **The round-trip statement for a message** -/
def MessageRoundTrip (spec : MsgSpec) : Prop :=
  ∀ (m : Msg) (tail bs : Bytes),
    spec.coherent = true → spec.inDomain m = true → spec.pack m = .ok bs →
    (∃ n, spec.unpack (bs ++ tail) = .ok (spec.canon m, n) ∧ n = bs.length) ∧
    spec.pack (spec.canon m) = .ok bs

end Iso8583.C01
