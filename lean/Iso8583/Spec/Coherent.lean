/-
The spec grammar's side conditions (DESIGN.md §2.2 "coherent specs"), value domains and
canonical forms (§2.3) as decidable Boolean functions over the model's spec types. The
property theorems quantify over specs with `Coherent = true` and values with
`InDomain = true`; the Go generators build specs that satisfy the same clauses.
-/
import Iso8583.Model.Message

namespace Iso8583

/-! ### byte classes -/
def isDigitB (c : Byte) : Bool := decide (48 ≤ c.toNat ∧ c.toNat ≤ 57)
def isAsciiB (c : Byte) : Bool := decide (c.toNat ≤ 127)
def isHexB (c : Byte) : Bool :=
  decide ((48 ≤ c.toNat ∧ c.toNat ≤ 57) ∨ (65 ≤ c.toNat ∧ c.toNat ≤ 70) ∨ (97 ≤ c.toNat ∧ c.toNat ≤ 102))
def isUpperHexB (c : Byte) : Bool :=
  decide ((48 ≤ c.toNat ∧ c.toNat ≤ 57) ∨ (65 ≤ c.toNat ∧ c.toNat ≤ 70))

/-- bytes the value encoder accepts (its source alphabet) -/
def Enc.accepts : Enc → Bytes → Bool
  | .ascii, x => x.all isAsciiB
  | .ebcdic1047, x => x.all isAsciiB
  | .bcd, x => x.all isDigitB
  | .lbcd, x => x.all isDigitB
  | .hexToBytes, x => decide (x.length % 2 = 0) && x.all isHexB
  | .berTag, x => decide (x.length % 2 = 0) && x.all isHexB
  | .ebcdic, _ => true
  | .binary, _ => true
  | .bytesToHex, _ => true

/-- exported digit counts -/
def Pref.exportedB : Pref → Bool
  | .var _ d => decide (1 ≤ d ∧ d ≤ 6)
  | _ => true

def Pref.capacityOf : Pref → Option Nat
  | .var .binary d => some (256 ^ d - 1)
  | .var .hex d => some (256 ^ d - 1)
  | .var _ d => some (10 ^ d - 1)
  | _ => Option.none

def Pad.char? : Pad → Option Byte
  | .left c => some c
  | .right c => some c
  | _ => Option.none

/-! ### K1–K3, K7, K8 for a primitive -/

/-- `inLastPositional` = the field is the last subfield of a positional composite (the
only place where the `None` prefix is coherent, K7) -/
def PrimSpec.coherent (s : PrimSpec) (inLastPositional : Bool) : Bool :=
  s.pref.exportedB &&
  -- K1 units
  (match s.enc, s.pref with
   | .hexToBytes, .fixed .hex => s.kind == .string && s.pad.char?.isNone
   | .hexToBytes, _ => false
   | _, .fixed .hex => false
   | .berTag, _ => false
   | _, _ => true) &&
  -- K7: `None` takes "the rest" in bytes, so it needs an encoder with one byte per unit
  (match s.pref with
   | .none => inLastPositional &&
       (match s.enc with | .ascii | .ebcdic | .ebcdic1047 | .binary => true | _ => false)
   | _ => true) &&
  -- K3 padding
  (match s.pad.char? with
   | none => true
   | some c =>
     decide (c.toNat ≤ 127) &&
     (match s.enc with | .bcd | .lbcd => isDigitB c | _ => true) &&
     -- BER-TLV with Length 0 declares no maximum: nothing is ever padded, yet Unpad would strip
     -- likewise `None` declares no maximum
     (match s.pref with | .berTLV => decide (1 ≤ s.len) | .none => false | _ => true) &&
     (match s.packer, s.pref.capacityOf with
      | .default, some cap => decide (s.len ≤ cap)
      | _, _ => true)) &&
  (match s.kind with
   | .numeric =>
     decide (1 ≤ s.len) &&
     (match s.pad with
      | .left c => c == 48 || !(isDigitB c || c == 43 || c == 45)
      | .right c => !(isDigitB c || c == 43 || c == 45)
      | _ => true) &&
     (match s.pref with | .fixed _ => s.pad.char?.isSome | _ => true)
   | _ => true) &&
  -- the custom Track2 packer needs a real pad
  -- the custom Track2 packer announces the unpadded length: String kind, a real pad, and a
  -- variable-length prefix (a fixed one would have to equal the unpadded length)
  (match s.packer with
   | .track2 => s.kind == .string && s.pad.char?.isSome &&
       (match s.pref with | .var _ _ => true | .berTLV => true | _ => false)
   | .default => true) &&
  -- spec.Length is a Go int
  decide (s.len ≤ maxInt)

/-! ### K5/K6 for tags -/

def allDistinct {α : Type} [DecidableEq α] : List α → Bool
  | [] => true
  | x :: xs => !(xs.contains x) && allDistinct xs

/-- valid BER tag bytes -/
def validBerTagB : Bytes → Bool
  | [] => false
  | [x] => decide (x.toNat % 32 ≠ 31)
  | x :: rest =>
    decide (x.toNat % 32 = 31) &&
    (match rest.reverse with
     | [] => false
     | last :: midRev => decide (last.toNat < 128) && midRev.all (fun m => decide (128 ≤ m.toNat)))

def tagAlnum (t : Tag) : Bool :=
  t.all fun c => decide ((48 ≤ c.toNat ∧ c.toNat ≤ 57) ∨ (65 ≤ c.toNat ∧ c.toNat ≤ 90) ∨ (97 ≤ c.toNat ∧ c.toNat ≤ 122))

/-- K5: a tag survives pad → encode → decode → unpad unchanged, with the declared width -/
def TagSpec.tagOK (t : TagSpec) (tag : Tag) : Bool :=
  tagAlnum tag && !tag.isEmpty &&
  (match t.enc with
   | none => true
   | some .berTag =>
     tag.all isUpperHexB && decide (tag.length % 2 = 0) && t.pad.char?.isNone &&
       (match Enc.hexDecode tag with | some bs => validBerTagB bs | none => false)
   | some .hexToBytes =>
     tag.all isUpperHexB && decide (tag.length = 2 * t.len) && t.pad.char?.isNone
   | some enc =>
     enc.accepts (t.pad.pad tag t.len) && decide ((t.pad.pad tag t.len).length = t.len) &&
     t.pad.unpad (t.pad.pad tag t.len) == tag &&
     (match enc with | .ascii | .ebcdic | .bcd => true | _ => false))

/-- K6: the comparators are strict total orders on the tag set — sufficient syntactic
conditions (see DESIGN §2.2) -/
def canonicalDecimal (t : Tag) : Bool :=
  t.all isDigitB && !t.isEmpty && (t.length == 1 || t.head? != some 48)

def sortKeysOK (k : SortKind) (tags : List Tag) : Bool :=
  allDistinct tags &&
  (-- StringsByInt is used for JSON/Describe regardless of the composite's own sort: it is a
   -- strict total order when all tags are canonical decimals (numeric order), or when all
   -- digit-only tags have one common length (then every comparison coincides with the
   -- plain string order)
   tags.all canonicalDecimal ||
   (match tags.filter (fun t => t.all isDigitB) with
    | [] => true
    | t :: rest => rest.all (fun u => u.length == t.length))) &&
  (match k with
   | .byHex =>
     tags.all (fun t => t.all isHexB && decide (t.length % 2 = 0) && decide (t.length ≤ 14)) &&
     allDistinct (tags.map fun t => (Enc.hexDecode t).map beInt)
   | _ => true)

mutual
/-- `Coherent` for a field; `inLastPositional` as for primitives -/
def Field.coherent : Field → Bool → Bool
  | .prim s, lastPos => s.coherent lastPos
  | .comp s subs, lastPos =>
    s.pref.exportedB &&
    (match s.pref with | .none => lastPos | .fixed .hex => false | _ => true) &&
    sortKeysOK (match s.mode with | .tagged t => t.sort | .bitmapped _ => .byInt) (subs.map (·.1)) &&
    -- `subs` is `orderedSpecFieldTags`: the subfields in the composite's sort order
    (orderSubs (match s.mode with | .tagged t => t.sort | .bitmapped _ => .byInt) subs).map (·.1) == subs.map (·.1) &&
    (match s.mode with
     | .tagged t =>
       subs.all (fun p => t.tagOK p.1) &&
       (match t.enc with
        | none => Field.coherentSubs subs true
        | some enc =>
          (!t.skipUnknown || enc == .berTag || t.prefUnknown.isSome) &&
          (match t.prefUnknown with | some p => p.exportedB && p != .none && p != .fixed .hex | none => true) &&
          -- tags encode, and stay pairwise distinct after encoding
          subs.all (fun p => (Enc.encode enc (t.pad.pad p.1 t.len)).isOk) &&
          allDistinct (subs.map fun p => Enc.encode enc (t.pad.pad p.1 t.len)) &&
          Field.coherentSubs subs false)
     | .bitmapped b =>
       !b.auto && decide (1 ≤ Bitmap.blockLenOf b.specLen ∧ Bitmap.blockLenOf b.specLen ≤ 16) &&
       (match b.pref with | .fixed _ => true | _ => false) &&
       (match b.enc, b.pref with
        | .binary, _ => true
        | .bytesToHex, _ => true
        | _, _ => false) &&
       subs.all (fun p => canonicalDecimal p.1 &&
         (match atoi? p.1 with | some v => decide (1 ≤ v ∧ v ≤ 8 * Bitmap.blockLenOf b.specLen) | none => false)) &&
       Field.coherentSubs subs false)

/-- all subfields coherent; with `positional`, only the last may use the `None` prefix -/
def Field.coherentSubs : List (Tag × Field) → Bool → Bool
  | [], _ => true
  | [(_, f)], positional => f.coherent positional
  | (_, f) :: rest, positional => f.coherent false && Field.coherentSubs rest positional
end

/-- K4/K8 for a message spec -/
def MsgSpec.coherent (s : MsgSpec) : Bool :=
  let bl := Bitmap.blockLenOf s.bitmap.specLen
  (s.mti.kind == .string || s.mti.kind == .numeric) && s.mti.coherent false &&
  decide (1 ≤ bl ∧ bl ≤ 16) &&
  (match s.bitmap.pref with | .fixed _ => true | _ => false) &&
  (match s.bitmap.enc with | .binary => true | .bytesToHex => true | _ => false) &&
  allDistinct (s.fields.map (·.1)) &&
  s.fields.all (fun p =>
    decide (2 ≤ p.1) &&
    (!s.bitmap.auto || decide (p.1 % (bl * 8) ≠ 1)) &&
    p.2.coherent false)

/-! ### value domains (§2.3) -/

mutual
def Field.inDomain : Field → Value → Bool
  | .prim s, .str b =>
    s.kind == .string && decide (b.length ≤ maxInt) &&
    (match s.packer with
     | .default => s.enc.accepts (s.pad.pad b s.len)
     | .track2 =>
       -- the custom packer pads odd lengths by one character and strips on unpack: the text
       -- must not itself begin (left) / end (right) with the pad character
       s.enc.accepts (s.pad.pad b (b.length + b.length % 2)) &&
       (match s.pad with
        | .left c => b.head? != some c
        | .right c => b.getLast? != some c
        | _ => true))
  | .prim s, .bin b => s.kind == .binary && s.enc.accepts (s.pad.pad b s.len) && decide (b.length ≤ maxInt)
  | .prim s, .hexv t =>
    s.kind == .hex && t.all isHexB && decide (t.length % 2 = 0) && decide (t.length ≤ maxInt) &&
    (match Enc.hexDecode t with | some raw => s.enc.accepts (s.pad.pad raw s.len) | none => false)
  | .prim s, .num i =>
    s.kind == .numeric && decide (-(2 ^ 63 : Int) ≤ i ∧ i < 2 ^ 63) &&
    s.enc.accepts (s.pad.pad (formatInt i) s.len)
  | .comp s subs, .comp vals =>
    allDistinct (vals.map (·.1)) &&
    Field.inDomainSubs subs vals &&
    vals.all (fun p => lookupField subs p.1) &&
    (match s.mode with
     | .tagged t =>
       (match t.enc with
        | none =>
          -- positional: fixed prefix ⇒ all subfields; variable ⇒ a non-empty leading run in spec order
          let present := subs.map (fun p => (lookup p.1 vals).isSome)
          (match s.pref with
           | .fixed _ => present.all id
           | .none => present.all id   -- `isVariableLength` is "the prefix took bytes": false for None
           | _ => !vals.isEmpty && (present.dropWhile id).all (fun b => !b) &&
               -- a trailing element that packs to no bytes can not be seen on the wire
               (match (orderBySpec subs vals).getLast? with
                | some (t, v) =>
                  (match lookup t subs with
                   | some f => (match f.pack v with | .ok bs => !bs.isEmpty | _ => true)
                   | none => true)
                | none => true))
        | some _ => true)
     | .bitmapped _ => true)
  | _, _ => false

/-- every set subfield value is in the domain of its spec -/
def Field.inDomainSubs : List (Tag × Field) → List (Tag × Value) → Bool
  | [], _ => true
  | (t, f) :: rest, vals =>
    (match lookup t vals with | some v => f.inDomain v | none => true) && Field.inDomainSubs rest vals
end

def MsgSpec.inDomain (s : MsgSpec) (m : Msg) : Bool :=
  (match m.mti with | some v => (Field.prim s.mti).inDomain v | none => false) &&
  allDistinct (m.fields.map (·.1)) &&
  m.fields.all (fun p => match lookupId p.1 s.fields with | some f => f.inDomain p.2 | none => false)

/-! ### canonical forms (§2.3) -/

def upperHexB (c : Byte) : Byte := if 97 ≤ c.toNat ∧ c.toNat ≤ 102 then UInt8.ofNat (c.toNat - 32) else c

/-- canonical form of a primitive value: what Unpack stores for what Pack wrote -/
def PrimSpec.canon (s : PrimSpec) : Value → Value
  | .str b => .str (if s.enc == .hexToBytes then b.map upperHexB else s.pad.unpad (s.pad.pad b s.len))
  | .bin b => .bin (s.pad.unpad (s.pad.pad b s.len))
  | .hexv t =>
    match Enc.hexDecode t with
    | some raw => .hexv (Enc.hexEncodeUpper (s.pad.unpad (s.pad.pad raw s.len)))
    | none => .hexv t
  | v => v

mutual
def Field.canon : Field → Value → Value
  | .prim s, v => s.canon v
  | .comp _ subs, .comp vals => .comp (Field.canonSubs subs vals)
  | _, v => v

/-- set subfields in spec order, each in canonical form -/
def Field.canonSubs : List (Tag × Field) → List (Tag × Value) → List (Tag × Value)
  | [], _ => []
  | (t, f) :: rest, vals =>
    match lookup t vals with
    | some v => (t, f.canon v) :: Field.canonSubs rest vals
    | none => Field.canonSubs rest vals
end

/-- canonical message content: fields ascending by id, each in canonical form -/
def MsgSpec.canon (s : MsgSpec) (m : Msg) : Msg :=
  { mti := m.mti.map s.mti.canon,
    fields := (sortBy (fun a b => decide (a.1 < b.1)) m.fields).map fun p =>
      match lookupId p.1 s.fields with
      | some f => (p.1, f.canon p.2)
      | none => p }

end Iso8583
