/-
The synchronized API of property C13 (committed reference data, not regenerated): the
operations that any number of goroutines may call concurrently on one shared message or
one shared composite, the struct fields their mutex guards, and the expected layout of
the two structs. Everything else the two types export (GetSpec, Spec, SetSpec,
ConstructSubfields, Bitmap of a composite, the deprecated SetData, and the getters
Message.GetField / GetString / GetBytes / GetMTI, which read `fields` without taking the
lock) is outside the property's operation list.

Core-only.
-/
namespace Iso8583.SyncAPI

def messageOps : List String :=
  ["MTI", "Field", "BinaryField", "Marshal", "Unmarshal", "Pack", "Unpack", "MarshalJSON",
   "UnmarshalJSON", "GetFields", "Bitmap", "Clone", "UnsetField", "UnsetFields"]

def compositeOps : List String :=
  ["Marshal", "Unmarshal", "Pack", "Unpack", "SetBytes", "Bytes", "String", "MarshalJSON",
   "UnmarshalJSON", "GetSubfields", "UnsetSubfield", "UnsetSubfields"]

/-- (receiver type, method) -/
def entryPoints : List (String × String) :=
  messageOps.map (fun m => ("Message", m)) ++ compositeOps.map (fun m => ("Composite", m))

/-- (struct, field) guarded by the struct's mutex -/
def guarded : List (String × String) :=
  [("Message", "fieldsMap"), ("Message", "fields"), ("Message", "cachedBitmap"),
   ("Composite", "setSubfields"), ("Composite", "subfields"), ("Composite", "cachedBitmap")]

/-- the two structs as the property knows them: (struct, field, type). A new field has to be
classified (guarded or immutable) before the check can pass again. -/
def expectedStructs : List (String × String × String) :=
  [("Message", "spec", "*iso8583.MessageSpec"),
   ("Message", "cachedBitmap", "*field.Bitmap"),
   ("Message", "fields", "map[int]field.Field"),
   ("Message", "mu", "sync.Mutex"),
   ("Message", "fieldsMap", "map[int]struct{}"),
   ("Composite", "spec", "*field.Spec"),
   ("Composite", "cachedBitmap", "*field.Bitmap"),
   ("Composite", "orderedSpecFieldTags", "[]string"),
   ("Composite", "mu", "sync.Mutex"),
   ("Composite", "subfields", "map[string]field.Field"),
   ("Composite", "setSubfields", "map[string]struct{}")]

/-- lock order: an object may call locking methods of objects of these types while holding
its own lock only if they are its children (or freshly created); a composite never calls
into a message. `Field` is the interface through which children are reached. -/
def parentTypes : List String := ["Message"]

end Iso8583.SyncAPI
