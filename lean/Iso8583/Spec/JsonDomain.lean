/-
The domain of the JSON theorems (C12) as decidable Boolean functions: what Coherent +
InDomain + "texts are valid UTF-8" give, in the form the proofs use.  The line driver
evaluates `msgJsonDomain` on the generated messages (`J <spec> dom <msg>`), which ties the
generator of channel J to the hypothesis of the theorems.
-/
import Iso8583.Model.Json
import Iso8583.Spec.Coherent

namespace Iso8583

mutual
/-- the domain of the JSON theorems, for one field: kinds match, texts are valid UTF-8
(JSON's own domain), integers are 64-bit, set subfields are pairwise different alphanumeric
tags the composite's spec defines -/
def jsonDomain : Field → Value → Bool
  | .prim s, .str b => s.kind == .string && validUtf8 b
  | .prim s, .num i => s.kind == .numeric && decide (-(2 ^ 63 : Int) ≤ i ∧ i < 2 ^ 63)
  | .prim s, .bin _ => s.kind == .binary
  | .prim s, .hexv t => s.kind == .hex && validUtf8 t
  | .comp _ subs, .comp vals => allDistinct (vals.map (·.1)) && jsonDomainList subs vals
  | _, _ => false
def jsonDomainList (subs : List (Tag × Field)) : List (Tag × Value) → Bool
  | [] => true
  | (t, v) :: rest =>
    tagAlnum t &&
    (match lookup t subs with
     | some f => jsonDomain f v
     | none => false) && jsonDomainList subs rest
end

/-- the domain of the message-level JSON theorems -/
def msgJsonDomain (spec : MsgSpec) (m : Msg) : Bool :=
  (match m.mti with
   | some v => jsonDomain (.prim spec.mti) v
   | none => true) &&
  allDistinct (m.fields.map (·.1)) &&
  m.fields.all fun p =>
    decide (2 ≤ p.1 ∧ p.1 < 2 ^ 63) &&
    (match lookupId p.1 spec.fields with
     | some f => jsonDomain f p.2
     | none => false)


end Iso8583
