/-
`bits.TrailingZeros8` / `bits.LeadingZeros8` as they occur in translated conditions, over `Int`
(the argument is a byte value 0..255; outside that range the functions are unspecified — 8 / 0):
-/
namespace Iso8583.GuardFns

/-- `bits.TrailingZeros8(uint8(x))` -/
def tz8N : Nat → Nat → Nat
  | 0, _ => 0
  | fuel + 1, x => if x % 2 = 1 then 0 else 1 + tz8N fuel (x / 2)

def tz8 (x : Int) : Int := if x % 256 = 0 then 8 else (tz8N 8 (x % 256).toNat : Int)

/-- `bits.LeadingZeros8(uint8(x))`: 8 minus the bit length -/
def bitLen : Nat → Nat → Nat
  | 0, _ => 0
  | fuel + 1, x => if x = 0 then 0 else 1 + bitLen fuel (x / 2)

def lz8 (x : Int) : Int := 8 - (bitLen 8 (x % 256).toNat : Int)

/-- "the low five bits of the byte are all set" as the source tests it:
`bits.TrailingZeros8(^b) >= 5` -/
theorem tz8_not_ge5_iff : ∀ x : Fin 256, (tz8 (255 - (x.val : Int)) ≥ 5) ↔ x.val % 32 = 31 := by
  decide +kernel

/-- "the top bit of the byte is clear" as the source tests it: `bits.LeadingZeros8(b) > 0` -/
theorem lz8_pos_iff : ∀ x : Fin 256, (lz8 (x.val : Int) > 0) ↔ x.val < 128 := by
  decide +kernel

example : tz8 8 = 3 ∧ tz8 0 = 8 ∧ lz8 1 = 7 ∧ lz8 255 = 0 ∧ lz8 0 = 8 := by decide

end Iso8583.GuardFns
