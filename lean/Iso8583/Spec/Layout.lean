/-
The ISO 8583 wire layout as a *declarative reference codec* (DESIGN.md §4 C03).

`refEncode spec m` says what the bytes of a message ARE, written from the standard and
from the library's documentation (/repo/docs/bitmap.md, composite-fields.md,
data-elements.md), not from the library's code:

  message   = MTI ++ bitmap ++ present data elements in ascending id order
  bitmap    = the characteristic function of the present ids: bit i (1-indexed, most
              significant bit first) is set iff element i is present; the first bit of a
              block is set iff another block follows; the minimal number of blocks
              (auto-expanding bitmap) or exactly one block (fixed bitmap; no layout if an id
              does not fit)
  element   = length prefix ++ padded value in the field's encoding
  prefix    = the number of value units after padding, rendered as d decimal ASCII / EBCDIC
              digits, d packed BCD digits, d big-endian bytes, 2d upper-case hex characters,
              or BER short / long form; nothing for Fixed / None
  composite = prefix ++ (padded, encoded tag ++ subfield)* in the spec's order, or
              prefix ++ own bitmap ++ subfields

The result is `none` whenever there is no such layout (value too long, not in the
encoding's alphabet, fixed length mismatch, id not representable …).

This file shares no *function* with Iso8583/Model: it uses the model's spec / value
*types* (`Field`, `Value`, `MsgSpec`, `Msg`, `Enc`, `Pref`, `Pad` …), the byte types of
Basic.lean, and the regenerated code-page tables in Gen/. Digits, nibbles, bits, hex,
padding, look-ups and the ordering of elements are defined here from scratch.
`Props/C03.lean` proves that the operational model of `Message.Pack` refines this
definition.
-/
import Iso8583.Model.Message
import Iso8583.Gen.EbcdicTables
import Iso8583.Gen.Cp1047

namespace Iso8583.Layout
open Iso8583

/-! ### numbers as digit strings -/

/-- the `w` low-order base-`b` digits of `n`, most significant first: digit `i` (from the
left) is `⌊n / b^(w-1-i)⌋ mod b` -/
def posDigits (b w n : Nat) : List Nat :=
  (List.range w).map (fun i => n / b ^ (w - 1 - i) % b)

/-- number of base-`b` digits of `n` (at least one); `fuel + 1` bounds the answer -/
def digitCount (b : Nat) : Nat → Nat → Nat
  | 0, _ => 1
  | fuel + 1, n => if n < b then 1 else digitCount b fuel (n / b) + 1

/-- ASCII character of a decimal digit -/
def decChar (d : Nat) : Byte := UInt8.ofNat (0x30 + d)

/-- EBCDIC character of a decimal digit (`F0`..`F9` in every EBCDIC code page) -/
def ebcdicDecChar (d : Nat) : Byte := UInt8.ofNat (0xF0 + d)

/-- upper-case ASCII hex character of a nibble -/
def hexChar (d : Nat) : Byte :=
  UInt8.ofNat (([0x30, 0x31, 0x32, 0x33, 0x34, 0x35, 0x36, 0x37, 0x38, 0x39,
                 0x41, 0x42, 0x43, 0x44, 0x45, 0x46] : List Nat).getD d 0)

/-- value of a decimal digit character -/
def decCharVal? (c : Byte) : Option Nat :=
  if 0x30 ≤ c.toNat ∧ c.toNat ≤ 0x39 then some (c.toNat - 0x30) else none

/-- value of a hex digit character, either case -/
def hexCharVal? (c : Byte) : Option Nat :=
  if 0x30 ≤ c.toNat ∧ c.toNat ≤ 0x39 then some (c.toNat - 0x30)
  else if 0x41 ≤ c.toNat ∧ c.toNat ≤ 0x46 then some (c.toNat - 0x41 + 10)
  else if 0x61 ≤ c.toNat ∧ c.toNat ≤ 0x66 then some (c.toNat - 0x61 + 10)
  else none

/-- all-or-nothing conversion of a string, character by character -/
def eachChar? {α : Type} (f : Byte → Option α) : Bytes → Option (List α)
  | [] => some []
  | c :: cs =>
    match f c with
    | none => none
    | some v => (eachChar? f cs).map (v :: ·)

/-- two nibbles per byte, high nibble first; defined on an even number of nibbles -/
def packNibbles : List Nat → Bytes
  | hi :: lo :: rest => UInt8.ofNat (hi * 16 + lo) :: packNibbles rest
  | _ => []

/-- decimal text of an integer as the library's Numeric field renders it: an optional
`-`, then the digits without leading zeros (`0` for zero) -/
def decimalText (i : Int) : Bytes :=
  let n := i.natAbs
  let digits := (posDigits 10 (digitCount 10 n n) n).map decChar
  if i < 0 then 0x2D :: digits else digits

/-! ### padding -/

def padded (p : Pad) (text : Bytes) (len : Nat) : Bytes :=
  match p with
  | .left c => List.replicate (len - text.length) c ++ text
  | .right c => text ++ List.replicate (len - text.length) c
  | _ => text

/-! ### value encodings -/

def tableByte (t : List Nat) (c : Byte) : Byte := UInt8.ofNat (t.getD c.toNat 0)

/-- EBCDIC-1047 character of an ASCII character (the reference defines ISO 8583 text
in this code page for the ASCII range only) -/
def cp1047Char? (c : Byte) : Option Byte :=
  if c.toNat ≤ 0x7F then
    let code := Gen.cp1047Encode.getD c.toNat 256
    if code < 256 then some (UInt8.ofNat code) else none
  else none

/-- the wire form of a (padded) value in an encoding -/
def encodeText (e : Enc) (text : Bytes) : Option Bytes :=
  match e with
  | .ascii => if text.all (fun c => c.toNat ≤ 0x7F) then some text else none
  | .ebcdic => some (text.map (tableByte Gen.asciiToEbcdic))
  | .ebcdic1047 => eachChar? cp1047Char? text
  | .binary => some text
  | .bcd =>     -- two digits per byte, high nibble first, an odd count zero-filled on the left
    (eachChar? decCharVal? text).map fun ds => packNibbles (if ds.length % 2 = 1 then 0 :: ds else ds)
  | .lbcd =>    -- the same, zero-filled on the right
    (eachChar? decCharVal? text).map fun ds => packNibbles (if ds.length % 2 = 1 then ds ++ [0] else ds)
  | .bytesToHex =>   -- every byte as two upper-case hex characters
    some (text.flatMap fun c => [hexChar (c.toNat / 16), hexChar (c.toNat % 16)])
  | .hexToBytes =>   -- hex text (either case, an even number of digits) as the bytes it denotes
    if text.length % 2 = 0 then (eachChar? hexCharVal? text).map packNibbles else none
  | .berTag =>       -- a BER tag is written as hex text and travels as the bytes it denotes
    if text.length % 2 = 0 then (eachChar? hexCharVal? text).map packNibbles else none

/-! ### length prefixes -/

/-- the prefix announcing `n` value units for a field of declared length `maxLen` -/
def lengthPrefix (p : Pref) (maxLen n : Nat) : Option Bytes :=
  match p with
  | .none => some []
  | .fixed .hex =>
    -- the declared length of a Hex.Fixed field counts wire bytes; its value is hex text
    if n = 2 * maxLen then some [] else none
  | .fixed _ => if n = maxLen then some [] else none
  | .berTLV =>
    if maxLen ≠ 0 ∧ maxLen < n then none
    else if n ≤ 127 then some [UInt8.ofNat n]                      -- short form
    else
      let k := digitCount 256 8 n                                   -- long form: 0x80+k, then k bytes
      some (UInt8.ofNat (0x80 + k) :: (posDigits 256 k n).map UInt8.ofNat)
  | .var fam d =>
    if maxLen < n then none else
    match fam with
    | .ascii => if n < 10 ^ d then some ((posDigits 10 d n).map decChar) else none
    | .ebcdic => if n < 10 ^ d then some ((posDigits 10 d n).map ebcdicDecChar) else none
    | .ebcdic1047 => if n < 10 ^ d then some ((posDigits 10 d n).map ebcdicDecChar) else none
    | .bcd =>
      if n < 10 ^ d then
        let ds := posDigits 10 d n
        some (packNibbles (if d % 2 = 1 then 0 :: ds else ds))
      else none
    | .binary => if n < 256 ^ d then some ((posDigits 256 d n).map UInt8.ofNat) else none
    | .hex => if n < 256 ^ d then some ((posDigits 16 (2 * d) n).map hexChar) else none

/-! ### primitive fields -/

/-- the text of a value of the field's kind: strings and binaries as they are, numbers
in decimal, hex fields as the bytes their hex text denotes -/
def valueText (k : Kind) (v : Value) : Option Bytes :=
  match k, v with
  | .string, .str s => some s
  | .binary, .bin x => some x
  | .numeric, .num i => some (decimalText i)
  | .hex, .hexv t => if t.length % 2 = 0 then (eachChar? hexCharVal? t).map packNibbles else none
  | _, _ => none

def encodePrim (s : PrimSpec) (v : Value) : Option Bytes :=
  match valueText s.kind v with
  | none => none
  | some text =>
    match s.packer with
    | .default =>
      let p := padded s.pad text s.len
      match lengthPrefix s.pref s.len p.length, encodeText s.enc p with
      | some pre, some body => some (pre ++ body)
      | _, _ => none
    | .track2 =>
      -- Track 2 data: the prefix counts the characters of the value itself; the value
      -- travels padded to an even number of characters (one pad character at most)
      let p := if text.length % 2 = 1 then padded s.pad text (text.length + 1) else text
      match lengthPrefix s.pref s.len text.length, encodeText s.enc p with
      | some pre, some body => some (pre ++ body)
      | _, _ => none

/-! ### bitmaps -/

/-- bit `k` (0 = most significant) of a byte -/
def bitOf (x : Byte) (k : Nat) : Bool := x.toNat / 2 ^ (7 - k) % 2 == 1

/-- the byte whose bit `k` (0 = most significant) is `f k` -/
def byteOfBits (f : Nat → Bool) : Byte :=
  UInt8.ofNat ((List.range 8).foldl (fun acc k => 2 * acc + (if f k then 1 else 0)) 0)

/-- the bitmap of `nBlocks` blocks of `blockLen` bytes whose bit `i` (1-indexed) is `bit i` -/
def bitmapBytes (nBlocks blockLen : Nat) (bit : Nat → Bool) : Bytes :=
  (List.range (nBlocks * blockLen)).map fun j => byteOfBits fun k => bit (8 * j + k + 1)

def blockBytes (specLen : Nat) : Nat := if specLen = 0 then 8 else specLen

/-- number of blocks needed for the highest present id (at least one) -/
def blocksFor (blockBits : Nat) (ids : List Nat) : Nat :=
  ids.foldl (fun acc i => max acc ((i + blockBits - 1) / blockBits)) 1

/-- The bitmap for a set of present ids: bit `i` is set iff `i` is present, or `i` is the
first bit of a block that is followed by another block. -/
def bitmapData (specLen : Nat) (auto : Bool) (ids : List Nat) : Option Bytes :=
  let bl := blockBytes specLen
  let blockBits := 8 * bl
  if auto then
    let nb := blocksFor blockBits ids
    some (bitmapBytes nb bl fun i => ids.contains i || (i % blockBits == 1 && i + blockBits ≤ nb * blockBits))
  else if ids.all (fun i => 1 ≤ i && i ≤ blockBits) then
    some (bitmapBytes 1 bl fun i => ids.contains i)
  else none

/-! ### composites and messages -/

def find? {κ α : Type} [BEq κ] (k : κ) (kvs : List (κ × α)) : Option α :=
  match kvs.find? (fun p => p.1 == k) with
  | some p => some p.2
  | none => none

/-- a subfield number of a bitmapped composite: a plain decimal numeral -/
def numeral? (t : Tag) : Option Nat :=
  if t.isEmpty then none
  else (eachChar? decCharVal? t).map fun ds => ds.foldl (fun acc d => 10 * acc + d) 0

/-- the numbers of the set subfields, in the spec's order -/
def setNumbers (subs : List (Tag × Field)) (vals : List (Tag × Value)) : Option (List Nat) :=
  match subs with
  | [] => some []
  | (tag, _) :: rest =>
    match find? tag vals with
    | none => setNumbers rest vals
    | some _ =>
      match numeral? tag, setNumbers rest vals with
      | some i, some is => some (i :: is)
      | _, _ => none

mutual

/-- the wire form of a field holding value `v` -/
def encodeField : Field → Value → Option Bytes
  | .prim s, v => encodePrim s v
  | .comp s subs, .comp vals =>
    let body : Option Bytes :=
      match s.mode with
      | .tagged t => encodeSubfields t.enc t.pad t.len subs vals
      | .bitmapped b =>
        match setNumbers subs vals with
        | none => none
        | some ids =>
          match bitmapData b.specLen b.auto ids with
          | none => none
          | some bits =>
            match encodeText b.enc bits, encodeSubfields none .nil 0 subs vals with
            | some bm, some fs => some (bm ++ fs)
            | _, _ => none
    match body with
    | none => none
    | some body =>
      match lengthPrefix s.pref s.len body.length with
      | some pre => some (pre ++ body)
      | none => none
  | .comp _ _, _ => none

/-- the set subfields in the spec's order, each preceded by its tag (padded, then
encoded) when tags travel on the wire -/
def encodeSubfields (tagEnc : Option Enc) (tagPad : Pad) (tagLen : Nat) :
    List (Tag × Field) → List (Tag × Value) → Option Bytes
  | [], _ => some []
  | (tag, f) :: rest, vals =>
    match find? tag vals with
    | none => encodeSubfields tagEnc tagPad tagLen rest vals
    | some v =>
      let tagBytes : Option Bytes :=
        match tagEnc with
        | some e => encodeText e (padded tagPad tag tagLen)
        | none => some []
      match tagBytes, encodeField f v, encodeSubfields tagEnc tagPad tagLen rest vals with
      | some tb, some fb, some more => some (tb ++ fb ++ more)
      | _, _, _ => none

end

/-- the data elements `from, from+1, …, from+count-1` that are present, in this order -/
def encodeElements (spec : MsgSpec) (m : Msg) : Nat → Nat → Option Bytes
  | 0, _ => some []
  | count + 1, i =>
    match find? i m.fields with
    | none => encodeElements spec m count (i + 1)
    | some v =>
      match find? i spec.fields with
      | none => none     -- the spec does not define element i
      | some f =>
        match encodeField f v, encodeElements spec m count (i + 1) with
        | some fb, some more => some (fb ++ more)
        | _, _ => none

/-- The reference encoder: MTI, bitmap, then the present data elements 2, 3, … in
ascending order. -/
def refEncode (spec : MsgSpec) (m : Msg) : Option Bytes :=
  match m.mti with
  | none => none          -- not an ISO 8583 message
  | some mti =>
    let ids := m.fields.map (·.1)
    if !(ids.all (fun i => 2 ≤ i)) then none else
    match encodePrim spec.mti mti, bitmapData spec.bitmap.specLen spec.bitmap.auto ids with
    | some mtiBytes, some bits =>
      match encodeText spec.bitmap.enc bits, encodeElements spec m (ids.foldl max 0 - 1) 2 with
      | some bm, some elems => some (mtiBytes ++ bm ++ elems)
      | _, _ => none
    | _, _ => none

/-- the name used in the task description -/
abbrev refEncodeField := encodeField

end Iso8583.Layout
