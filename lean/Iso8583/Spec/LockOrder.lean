/-
Spec: "threads that take several mutexes in rank order never deadlock".

`Spec/Linearizable.lean` has ONE mutex (the object's). A message holds its own mutex while
it calls locking methods of its composite fields, which hold theirs while they call nested
composites: several mutexes are held at once. This file gives the interleaving semantics
for any number of threads over any number of mutexes and proves that a *rank discipline*
— a thread only acquires a mutex whose rank is larger than the rank of every mutex it
holds, releases only what it holds, and holds nothing when it is done — excludes
deadlock: in every reachable state in which some thread has work left, some thread can
take a step. For the library the rank is the nesting depth of the object (message 0,
its composite fields 1, their composite subfields 2, …); that the method bodies have this
shape is proved in Props/C13.lean from the regenerated micro-step table.

What is modelled: `acq ℓ` blocks while any thread holds ℓ (also the thread itself: Go
mutexes are not re-entrant), `rel ℓ` needs the thread to hold ℓ, every other step is always
enabled. Not modelled: the Go memory model, `sync.Mutex` itself, goroutines blocked on
anything but a mutex.

Core-only.
-/
namespace Iso8583.LockOrder

abbrev Lock := Nat

inductive Instr where
  | acq (l : Lock)
  | rel (l : Lock)
  | other
deriving DecidableEq, Repr

/-- a thread: the instructions it still has to run and the mutexes it holds -/
structure Thread where
  rem : List Instr
  held : List Lock
deriving Repr

abbrev State := List Thread

/-- nobody holds `l` -/
def free (s : State) (l : Lock) : Bool := s.all fun th => !th.held.contains l

/-- the rank discipline of a program run from a given set of held mutexes (this is also the
ghost state of the proof: `held` is updated exactly as the semantics does) -/
def disc (rank : Lock → Nat) : List Lock → List Instr → Bool
  | held, [] => held.isEmpty
  | held, .acq l :: r => held.all (fun h => decide (rank h < rank l)) && disc rank (l :: held) r
  | held, .rel l :: r => held.contains l && disc rank (held.erase l) r
  | held, .other :: r => disc rank held r

/-- what one step of a thread does to the thread itself -/
def stepThread (th : Thread) : Option Thread :=
  match th.rem with
  | [] => none
  | .acq l :: r => some { rem := r, held := l :: th.held }
  | .rel l :: r => some { rem := r, held := th.held.erase l }
  | .other :: r => some { rem := r, held := th.held }

/-- is the head instruction of the thread enabled in state `s`? -/
def enabledHead (s : State) (th : Thread) : Bool :=
  match th.rem with
  | [] => false
  | .acq l :: _ => free s l
  | .rel l :: _ => th.held.contains l
  | .other :: _ => true

/-- thread number `i` takes a step; the scheduler is arbitrary -/
inductive Step : State → State → Prop where
  | mk (s : State) (i : Nat) (th th' : Thread) :
      s[i]? = some th → enabledHead s th = true → stepThread th = some th' →
      Step s (s.set i th')

def init (progs : List (List Instr)) : State := progs.map fun p => { rem := p, held := [] }

inductive Reachable (progs : List (List Instr)) : State → Prop where
  | init : Reachable progs (init progs)
  | step {s s' : State} : Reachable progs s → Step s s' → Reachable progs s'

/-- every program obeys the discipline -/
def Disciplined (rank : Lock → Nat) (progs : List (List Instr)) : Prop :=
  ∀ p ∈ progs, disc rank [] p = true

/-- some thread has not finished -/
def Unfinished (s : State) : Prop := ∃ th ∈ s, th.rem ≠ []

/-! ## The invariant: every thread still obeys the discipline from what it holds -/

def Inv (rank : Lock → Nat) (s : State) : Prop := ∀ th ∈ s, disc rank th.held th.rem = true

theorem inv_init (rank : Lock → Nat) (progs : List (List Instr)) (h : Disciplined rank progs) :
    Inv rank (init progs) := by
  intro th hth
  simp only [init, List.mem_map] at hth
  obtain ⟨p, hp, rfl⟩ := hth
  exact h p hp

theorem disc_step (rank : Lock → Nat) (th th' : Thread) (h : disc rank th.held th.rem = true)
    (hs : stepThread th = some th') : disc rank th'.held th'.rem = true := by
  unfold stepThread at hs
  cases hr : th.rem with
  | nil => rw [hr] at hs; cases hs
  | cons i r =>
    rw [hr] at hs h
    cases i with
    | acq l =>
      simp only [Option.some.injEq] at hs; subst hs
      simp only [disc, Bool.and_eq_true] at h
      exact h.2
    | rel l =>
      simp only [Option.some.injEq] at hs; subst hs
      simp only [disc, Bool.and_eq_true] at h
      exact h.2
    | other =>
      simp only [Option.some.injEq] at hs; subst hs
      simpa only [disc] using h

theorem inv_step (rank : Lock → Nat) {s s' : State} (hi : Inv rank s) (hs : Step s s') : Inv rank s' := by
  cases hs with
  | mk i th th' hget _ hst =>
    intro x hx
    rcases List.mem_or_eq_of_mem_set hx with hx | hx
    · exact hi x hx
    · subst hx
      exact disc_step rank th x (hi th (List.mem_of_getElem? hget)) hst

theorem inv_reachable (rank : Lock → Nat) (progs : List (List Instr)) (h : Disciplined rank progs)
    {s : State} (hr : Reachable progs s) : Inv rank s := by
  induction hr with
  | init => exact inv_init rank progs h
  | step _ hs ih => exact inv_step rank ih hs

/-! ## Progress -/

/-- a non-empty list of mutexes has one of maximal rank -/
theorem exists_max (rank : Lock → Nat) : ∀ (L : List Lock), L ≠ [] → ∃ h ∈ L, ∀ h' ∈ L, rank h' ≤ rank h
  | [], hne => absurd rfl hne
  | [a], _ => ⟨a, List.mem_singleton.mpr rfl, fun h' hh' => by rw [List.mem_singleton.mp hh']; exact Nat.le_refl _⟩
  | a :: b :: r, _ => by
    obtain ⟨m, hm, hmax⟩ := exists_max rank (b :: r) (List.cons_ne_nil _ _)
    by_cases hc : rank m ≤ rank a
    · refine ⟨a, List.mem_cons_self .., fun h' hh' => ?_⟩
      rcases List.mem_cons.mp hh' with rfl | hh'
      · exact Nat.le_refl _
      · exact Nat.le_trans (hmax h' hh') hc
    · refine ⟨m, List.mem_cons_of_mem _ hm, fun h' hh' => ?_⟩
      rcases List.mem_cons.mp hh' with rfl | hh'
      · omega
      · exact hmax h' hh'

/-- a thread whose head instruction is enabled can step -/
theorem can_step (s : State) (th : Thread) (hmem : th ∈ s) (hen : enabledHead s th = true) :
    ∃ s', Step s s' := by
  obtain ⟨i, hi, hget⟩ := List.getElem_of_mem hmem
  have hget' : s[i]? = some th := by rw [List.getElem?_eq_getElem hi, hget]
  unfold enabledHead at hen
  cases hr : th.rem with
  | nil => rw [hr] at hen; cases hen
  | cons ins r =>
    have : ∃ th', stepThread th = some th' := by
      unfold stepThread
      rw [hr]
      cases ins <;> exact ⟨_, rfl⟩
    obtain ⟨th', hst⟩ := this
    exact ⟨_, Step.mk s i th th' hget' (by unfold enabledHead; rw [hr]; rw [hr] at hen; exact hen) hst⟩

theorem disc_held_nonempty (rank : Lock → Nat) (held : List Lock) (rem : List Instr)
    (h : disc rank held rem = true) (hne : held ≠ []) : rem ≠ [] := by
  intro hr
  subst hr
  cases held with
  | nil => exact hne rfl
  | cons _ _ => simp [disc] at h

/-- **No deadlock under the rank discipline.** In every state reachable by any interleaving
of disciplined programs, if some thread has not finished then some thread can take a step. -/
theorem ordered_deadlock_free (rank : Lock → Nat) (progs : List (List Instr))
    (hd : Disciplined rank progs) {s : State} (hr : Reachable progs s) (hu : Unfinished s) :
    ∃ s', Step s s' := by
  have hinv := inv_reachable rank progs hd hr
  by_cases hall : s.flatMap (·.held) = []
  · -- nobody holds anything: any unfinished thread can move
    obtain ⟨th, hth, hrem⟩ := hu
    have hheld : ∀ x ∈ s, x.held = [] := by
      intro x hx
      cases hxh : x.held with
      | nil => rfl
      | cons a _ =>
        have : a ∈ s.flatMap (·.held) := List.mem_flatMap.mpr ⟨x, hx, by rw [hxh]; exact List.mem_cons_self ..⟩
        rw [hall] at this; cases this
    apply can_step s th hth
    have hdisc := hinv th hth
    unfold enabledHead
    cases hr' : th.rem with
    | nil => exact absurd hr' hrem
    | cons ins r =>
      cases ins with
      | acq l =>
        simp only [free, List.all_eq_true]
        intro x hx
        rw [hheld x hx]; rfl
      | rel l =>
        rw [hr', hheld th hth] at hdisc
        simp [disc] at hdisc
      | other => rfl
  · -- the holder of a mutex of maximal rank can move
    obtain ⟨m, hm, hmax⟩ := exists_max rank _ hall
    obtain ⟨th, hth, hmth⟩ := List.mem_flatMap.mp hm
    have hdisc := hinv th hth
    have hne : th.held ≠ [] := by intro h; rw [h] at hmth; cases hmth
    have hrem := disc_held_nonempty rank th.held th.rem hdisc hne
    apply can_step s th hth
    unfold enabledHead
    cases hr' : th.rem with
    | nil => exact absurd hr' hrem
    | cons ins r =>
      rw [hr'] at hdisc
      cases ins with
      | acq l =>
        simp only [disc, Bool.and_eq_true, List.all_eq_true, decide_eq_true_eq] at hdisc
        have hlt : rank m < rank l := hdisc.1 m hmth
        simp only [free, List.all_eq_true, Bool.not_eq_true']
        intro x hx
        cases hc : x.held.contains l with
        | false => rfl
        | true =>
          have hl : l ∈ s.flatMap (·.held) :=
            List.mem_flatMap.mpr ⟨x, hx, by simpa using hc⟩
          have := hmax l hl
          omega
      | rel l =>
        simp only [disc, Bool.and_eq_true] at hdisc
        exact hdisc.1
      | other => rfl

end Iso8583.LockOrder
