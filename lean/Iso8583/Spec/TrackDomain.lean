/-
Side conditions for the track field family (DESIGN.md §2.2 K2/K3, §2.3 rows Track1/2/3)
as decidable Boolean functions: `TrackSpec.coherent`, `TrackSpec.inDomain`,
`TrackVal.canon`. The wire-layer clauses are literally those of Spec/Coherent.lean
applied to the track field's spec read as a String primitive; the component clauses are
the table rows of §2.3. Tied to the Go generator by the `dom` lines of channel Y.

Two clauses are not in the §2.3 table and were forced by the round-trip proof (the real
code was run at the excluded points, see the report): Track1 discretionary data ≠ "^"
(the parser skips a group that equals the placeholder, exactly as Track3 skips "="),
and name lengths are counted in code points, as `regexp` does (for ASCII names this is
the table's "2–26 bytes").
-/
import Iso8583.Spec.Coherent
import Iso8583.Model.Track

namespace Iso8583
open Track

/-- K1–K3 for the wire layer: the spec read as a String primitive is coherent. -/
def TrackSpec.coherent (s : TrackSpec) : Bool := s.prim.coherent false

namespace Track

/-- PAN: 1–19 digits -/
def panOK (p : Bytes) : Bool := decide (1 ≤ p.length ∧ p.length ≤ 19) && p.all dig

/-- expiry year 1969–2068 (what a two-digit year can express), month 1–12 -/
def expiryOK (e : Expiry) : Bool := decide (1969 ≤ e.year ∧ e.year ≤ 2068 ∧ 1 ≤ e.month ∧ e.month ≤ 12)

/-- discretionary data: non-empty, no '?', no leading/trailing Unicode space -/
def ddOK (d : Bytes) : Bool := dataOK d && trimSpace d == d

end Track

def Track2.inDomain (v : Track2) : Bool :=
  panOK v.pan && (v.sep == [] || v.sep == [eqSign] || v.sep == [capD]) &&
  (match v.expiry with | some e => expiryOK e | none => false) &&
  decide (v.serviceCode.length = 3) && v.serviceCode.all dig && ddOK v.data

def Track1.inDomain (v : Track1) : Bool :=
  !v.fixedLength &&
  (match v.formatCode with | [c] => upper c | _ => false) &&
  panOK v.pan &&
  v.name.all (· != caret) && trimSpace v.name == v.name &&
  decide (2 ≤ utf8Count v.name ∧ utf8Count v.name ≤ 26) &&
  (match v.expiry with | some e => expiryOK e | none => true) &&
  (v.serviceCode.isEmpty || (decide (v.serviceCode.length = 3) && v.serviceCode.all dig)) &&
  ddOK v.data && v.data != [caret]

def Track3.inDomain (v : Track3) : Bool :=
  decide (v.formatCode.length = 2) && v.formatCode.all dig && panOK v.pan &&
  ddOK v.data && v.data != [eqSign]

def TrackVal.inDomainComponents : TrackVal → Bool
  | .t1 v => v.inDomain
  | .t2 v => v.inDomain
  | .t3 v => v.inDomain

/-- `InDomain` for a track value under a spec: the components are in their domains, and
the packed text is in the domain of the wire layer (`Field.inDomain` of the String
primitive: encoder alphabet, and for the Track2 packer "does not start with the pad
byte") and is its own canonical form there (a padded text does not begin / end with
the pad byte). -/
def TrackSpec.inDomain (s : TrackSpec) (v : TrackVal) : Bool :=
  v.kind == s.kind && v.inDomainComponents &&
  (Field.prim s.prim).inDomain (.str v.packText) &&
  s.enc != .hexToBytes &&
  (match s.packer with
   | .default => s.pad.unpad (s.pad.pad v.packText s.len) == v.packText
   | .track2 => true)

/-- the `FixedLength` formatting option of a Track1 object (not a parsed component) -/
def TrackVal.fixedLength : TrackVal → Bool
  | .t1 v => v.fixedLength
  | _ => false

/-- canonical form: the separator of Track2 defaulted to "=" -/
def TrackVal.canon : TrackVal → TrackVal
  | .t2 v => .t2 { v with sep := if v.sep = [] then [eqSign] else v.sep }
  | v => v

end Iso8583
