/-
Spec: "an object whose operations all run under one mutex is linearizable".

A small-step interleaving semantics for any number of threads, each running a sequence
of operations (method bodies) given as micro-step lists over ONE mutex and a set of
guarded variables. Thread identifiers are natural numbers, so "for all k" is "for all
program assignments `Tid → List (List Instr)`" (threads with an empty program never move).

What is modelled
* `acq` blocks while another thread holds the mutex; `rel` frees it (Go: `Unlock` of an
  unlocked mutex is a fatal error — here: no step);
* every other micro-step (`acc v w` = read/write of guarded variable `v`, `ext` = anything
  that touches no guarded variable: local computation, calls into other objects) is always
  enabled and atomic;
* invocation and return of every operation are steps of their own (they are what a
  history records), and every step is appended to a global log.

What is NOT modelled (see also Props/C13.lean): the Go memory model (the semantics is
sequentially consistent), `sync.Mutex` itself (assumed: mutual exclusion, not re-entrant,
no ownership), state reachable through pointers an operation returns, panics.

Core-only.
-/
namespace Iso8583.Lin

abbrev Tid := Nat

/-- micro-steps of a method body, after inlining helpers and turning `defer Unlock` into
the release at the end -/
inductive Instr where
  | acq
  | rel
  | acc (v : String) (write : Bool)
  | ext
deriving DecidableEq, Repr

/-! ## Well-locked operations

An operation is well locked when its body is: steps that touch no guarded variable, then
at most one critical section `acq … rel` containing every guarded access, then again
steps that touch no guarded variable. It never acquires twice (Go mutexes are not
re-entrant) and never returns while holding the mutex. -/

inductive Phase where
  | before | inside | after
deriving DecidableEq, Repr

def Phase.step : Phase → Instr → Option Phase
  | .before, .ext => some .before
  | .before, .acq => some .inside
  | .inside, .ext => some .inside
  | .inside, .acc _ _ => some .inside
  | .inside, .rel => some .after
  | .after, .ext => some .after
  | _, _ => none

def runPhase : Phase → List Instr → Option Phase
  | p, [] => some p
  | p, i :: r =>
    match p.step i with
    | some q => runPhase q r
    | none => none

/-- the well-lockedness predicate the semantic theorems assume of every method body -/
def wlOp (body : List Instr) : Bool :=
  match runPhase .before body with
  | some .before => true
  | some .after => true
  | _ => false

/-- every operation of every thread is well locked -/
def WellLocked (progs : Tid → List (List Instr)) : Prop :=
  ∀ t, ∀ b ∈ progs t, wlOp b = true

/-! ## Machine -/

/-- a thread: number of completed operations (= index of the current one), the operation
in progress as (executed micro-steps, remaining micro-steps), operations still to invoke -/
structure Thread where
  done : Nat
  cur : Option (List Instr × List Instr)
  todo : List (List Instr)

inductive EvKind where
  | inv
  | ret
  | ins (i : Instr)
deriving DecidableEq, Repr

/-- a logged step: thread, index of the operation within the thread, what happened -/
structure Ev where
  tid : Tid
  op : Nat
  kind : EvKind
deriving DecidableEq, Repr

structure State where
  holder : Option Tid
  th : Tid → Thread
  /-- newest event first -/
  log : List Ev

def init (progs : Tid → List (List Instr)) : State :=
  { holder := none, th := fun t => { done := 0, cur := none, todo := progs t }, log := [] }

def setTh (th : Tid → Thread) (t : Tid) (x : Thread) : Tid → Thread :=
  fun u => if u = t then x else th u

/-- can a thread execute micro-step `i` when the mutex is held by `h`? -/
def enabled (h : Option Tid) : Instr → Bool
  | .acq => h.isNone
  | .rel => h.isSome
  | _ => true

def holderAfter (h : Option Tid) (t : Tid) : Instr → Option Tid
  | .acq => some t
  | .rel => none
  | _ => h

/-- one step of one thread; the scheduler is arbitrary -/
inductive Step : State → State → Prop where
  | invoke (s : State) (t : Tid) (b : List Instr) (bs : List (List Instr)) :
      (s.th t).cur = none → (s.th t).todo = b :: bs →
      Step s { holder := s.holder
               th := setTh s.th t { done := (s.th t).done, cur := some ([], b), todo := bs }
               log := ⟨t, (s.th t).done, .inv⟩ :: s.log }
  | instr (s : State) (t : Tid) (past : List Instr) (i : Instr) (r : List Instr) :
      (s.th t).cur = some (past, i :: r) → enabled s.holder i = true →
      Step s { holder := holderAfter s.holder t i
               th := setTh s.th t { done := (s.th t).done, cur := some (past ++ [i], r), todo := (s.th t).todo }
               log := ⟨t, (s.th t).done, .ins i⟩ :: s.log }
  | ret (s : State) (t : Tid) (past : List Instr) :
      (s.th t).cur = some (past, []) →
      Step s { holder := s.holder
               th := setTh s.th t { done := (s.th t).done + 1, cur := none, todo := (s.th t).todo }
               log := ⟨t, (s.th t).done, .ret⟩ :: s.log }

/-- states reachable by any interleaving, of any length -/
inductive Reachable (progs : Tid → List (List Instr)) : State → Prop where
  | init : Reachable progs (init progs)
  | step {s s' : State} : Reachable progs s → Step s s' → Reachable progs s'

/-- every thread has run its whole program -/
def Complete (s : State) : Prop :=
  ∀ t, (s.th t).cur = none ∧ (s.th t).todo = []

/-! ## Observations on states and logs -/

/-- the thread has executed its `acq` and not yet its `rel` -/
def Thread.inCS (x : Thread) : Bool :=
  match x.cur with
  | some (past, _) => past.contains .acq && !past.contains .rel
  | none => false

/-- the thread's next micro-step is a guarded access -/
def Thread.atAccess (x : Thread) : Bool :=
  match x.cur with
  | some (_, .acc _ _ :: _) => true
  | _ => false

/-- who holds the mutex according to the log alone (newest first) -/
def holderOfLog : List Ev → Option Tid
  | [] => none
  | ⟨t, _, .ins .acq⟩ :: _ => some t
  | ⟨_, _, .ins .rel⟩ :: _ => none
  | _ :: l => holderOfLog l

/-- critical sections never overlap: every acquisition happens while nobody holds the mutex
and every release is by the holder -/
def CSDisjoint : List Ev → Prop
  | [] => True
  | e :: l =>
    CSDisjoint l ∧
    (e.kind = .ins .acq → holderOfLog l = none) ∧
    (e.kind = .ins .rel → holderOfLog l = some e.tid)

/-- operations (thread, index) in the order of their lock acquisitions, newest first -/
def acqOrder : List Ev → List (Tid × Nat)
  | [] => []
  | ⟨t, n, .ins .acq⟩ :: l => (t, n) :: acqOrder l
  | _ :: l => acqOrder l

def Ev.isAcc (e : Ev) : Bool :=
  match e.kind with
  | .ins (.acc _ _) => true
  | _ => false

/-- the guarded accesses of the execution, newest first -/
def accLog (l : List Ev) : List Ev := l.filter Ev.isAcc

def Ev.ofOp (o : Tid × Nat) (e : Ev) : Bool := e.tid == o.1 && e.op == o.2

/-- `Serial l`: the sequence of guarded accesses of the concurrent execution is the
concatenation, in lock-acquisition order, of each operation's own accesses — exactly the
access sequence of running the operations one at a time in that order. -/
def Serial (l : List Ev) : Prop :=
  accLog l = (acqOrder l).flatMap (fun o => (accLog l).filter (Ev.ofOp o))

/-- `RealTime l`: if operation A returned before operation B was invoked then A acquired
the mutex before B did (the log is newest first: `l₁` is the oldest part). -/
def RealTime (l : List Ev) : Prop :=
  ∀ (t u : Tid) (a b : Nat) (l₁ l₂ l₃ : List Ev),
    l = l₃ ++ ⟨u, b, .inv⟩ :: l₂ ++ ⟨t, a, .ret⟩ :: l₁ →
    (⟨t, a, .ins .acq⟩ ∈ l → ⟨t, a, .ins .acq⟩ ∈ l₁) ∧
    (⟨u, b, .ins .acq⟩ ∈ l → ⟨u, b, .ins .acq⟩ ∈ l₃)

end Iso8583.Lin
