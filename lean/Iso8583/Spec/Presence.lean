/-
The abstract specification of "which fields are present" (C14), and the observation
function shared by the history properties C10 / C14 / C15.

Abstract state: a partial function from field ids to values,

    a : Nat → Option Value        a i = some v  ⇔  field i is present and holds v

where the value of a composite is the list of its *set* subfields with their values
(`Value.comp`, recursively) — so the state is exactly: the finite set of present ids, the
set-subfield set of every present composite, and the values. Nothing else survives: a
value written into a field that is not present, or into a subfield that is not set, is
not part of the state.

The bitmap field (id 1) is part of every message: `a 1 = some bitmapMark` in the initial
state (`AbsState.init`) and no operation ever removes it, so that *every* observer —
GetFields, Unmarshal, JSON members, and (for ids ≥ 2) the bits of Pack — reads exactly the
domain of `a`. (The alternative, leaving id 1 out of the abstract state, would put an
"∪ {1}" into the statement about each observer.)

`specStep` gives each operation's effect in one line. The refinement theorem
(Props/C14.lean) says that the message object of Model/Object.lean, seen through `abs`,
follows `specStep` at every step of every history.
-/
import Iso8583.Model.Object

namespace Iso8583

/-! ### abstract values -/

/-- content of a field nobody wrote -/
def Field.zeroValue : Field → Value
  | .prim s => s.kind.zero
  | .comp _ _ => .comp []

/-- a decoded value as the object presents it: set subfields in spec order (recursively) -/
def Field.norm (f : Field) (v : Value) : Value := f.valueOf (f.ofValue v)

mutual
/-- Marshal / JSON-decode `v` over the content `old`: a primitive takes the new value, a
composite keeps its set subfields and adds / overwrites those named in `v` -/
def Field.mergeValue : Field → Value → Value → Value
  | .prim _, _, v => v
  | .comp _ subs, .comp old, .comp vals => .comp (Field.mergeSubs subs old vals)
  | .comp _ subs, _, .comp vals => .comp (Field.mergeSubs subs [] vals)
  | .comp _ _, old, _ => old

def Field.mergeSubs : List (Tag × Field) → List (Tag × Value) → List (Tag × Value) → List (Tag × Value)
  | [], _, _ => []
  | (t, f) :: rest, old, vals =>
    match lookup t vals, lookup t old with
    | some v, some ov => (t, f.mergeValue ov v) :: Field.mergeSubs rest old vals
    | some v, none => (t, f.mergeValue f.zeroValue v) :: Field.mergeSubs rest old vals
    | none, some ov => (t, ov) :: Field.mergeSubs rest old vals
    | none, none => Field.mergeSubs rest old vals
end

mutual
/-- unset by path inside a composite value: the named set subfield disappears with
everything below it; a path through something that is not set changes nothing -/
def Field.unsetValue : Field → Value → Bytes → Res Value
  | .comp _ subs, .comp vals, path =>
    if path.isEmpty then .ok (.comp vals)
    else
      let (id, rest) := cutDot path
      if (lookup id vals).isSome then
        if rest.isEmpty then .ok (.comp (eraseKV id vals))
        else Field.unsetValueIn subs id vals rest
      else .ok (.comp vals)
  | .comp _ _, _, _ => .err
  | .prim _, _, _ => .err

def Field.unsetValueIn : List (Tag × Field) → Tag → List (Tag × Value) → Bytes → Res Value
  | [], _, _, _ => .err
  | (k, f) :: more, id, vals, rest =>
    if k = id then
      match f.unsetValue ((lookup id vals).getD f.zeroValue) rest with
      | .ok v' => .ok (.comp (insertKV id v' vals))
      | .err => .err
      | .panic => .panic
    else Field.unsetValueIn more id vals rest
end

/-- `SetBytes(b)` on content `old`: a primitive takes the parsed value (a numeric that
does not parse keeps `old`); a composite is replaced by what `b` decodes to -/
def Field.setBytesValue : Field → Value → Bytes → Value
  | .prim s, old, b =>
    match s.setBytes b with
    | .ok v => v
    | _ => old
  | .comp s subs, _, b =>
    match Field.unpackBody s subs b false with
    | .ok (vals, _) => (Field.comp s subs).norm (.comp (orderBySpec subs vals))
    | _ => -- not specified (the decoder stopped half-way): whatever the object holds
      (Field.comp s subs).valueOf ((Field.comp s subs).setBytesInto (.comp [] []) b).1

/-! ### abstract state and the effect of each operation -/

abbrev AbsState := Nat → Option Value

/-- the bitmap field (id 1) carries no value of its own in the abstract state -/
def bitmapMark : Value := .bin []

namespace AbsState

def empty : AbsState := fun _ => none
def set (a : AbsState) (i : Nat) (v : Value) : AbsState := fun j => if j = i then some v else a j
def erase (a : AbsState) (i : Nat) : AbsState := fun j => if j = i then none else a j
/-- the ids that are present -/
def Present (a : AbsState) (i : Nat) : Prop := (a i).isSome = true
/-- a new message: nothing but the bitmap field -/
def init : AbsState := fun j => if j = 1 then some bitmapMark else none

end AbsState

/-! ### abstraction function -/

/-- what the message object stands for: present ids ↦ content of their objects -/
def MsgObj.abs (spec : MsgSpec) (o : MsgObj) : AbsState := fun i =>
  if o.present.contains i then
    (if i = 1 then some bitmapMark else (spec.fieldOf i).map fun f => f.valueOf (o.get i f))
  else none

/-- value of field `id` before a write: its content if present, else the zero content -/
def AbsState.cur (a : AbsState) (id : Nat) (f : Field) : Value := (a id).getD f.zeroValue

def specMarshal (spec : MsgSpec) (a : AbsState) (id : Nat) (v : Value) : AbsState × Res Unit :=
  match spec.fieldOf id with
  | none => (a, .err)
  | some f => if f.shapeOK v then (a.set id (f.mergeValue (a.cur id f) v), .ok ()) else (a, .err)

def specJsonDecode (spec : MsgSpec) (a : AbsState) : List (Nat × Value) → AbsState
  | [] => a
  | (id, v) :: rest =>
    if id = 1 then
      match v with
      | .bin _ => specJsonDecode spec a rest   -- the bitmap object's bytes are not part of the state
      | _ => a
    else
      match specMarshal spec a id v with
      | (a', .ok _) => specJsonDecode spec a' rest
      | (a', _) => a'

/-- content of a decoded message as an abstract state: MTI, the bitmap field, the data elements -/
def absOfMsg (spec : MsgSpec) (m : Msg) : AbsState := fun i =>
  if i = 0 then m.mti
  else if i = 1 then some bitmapMark
  else
    match lookupId i spec.fields, lookupId i m.fields with
    | some f, some v => some (f.norm v)
    | _, _ => none

/-- the effect of each operation, one line each -/
def specStep (spec : MsgSpec) (a : AbsState) : Op → AbsState
  -- MTI(s): field 0 becomes present with the given text
  | .mti s => a.set 0 ((Field.prim spec.mti).setBytesValue (a.cur 0 (.prim spec.mti)) s)
  -- Field / BinaryField(id, b): a field of the spec becomes present with the value SetBytes gives
  | .setField id b =>
    if id = 1 then a       -- writes the bitmap object's bytes, which are not part of the state
    else match spec.fieldOf id with
      | none => a
      | some f => a.set id (f.setBytesValue (a.cur id f) b)
  -- Marshal of one struct member: present, merged into the present content
  | .marshalField id v => (specMarshal spec a id v).1
  -- JSON decode: like Marshal, member by member
  | .jsonDecode doc => specJsonDecode spec a doc
  -- Unpack(b): the state *is* the content of b (plus the bitmap field) — nothing of `a` survives
  | .unpack b =>
    match spec.unpack b with
    | .ok (m, _) => absOfMsg spec m
    | _ => (spec.unpackResidue b).abs spec   -- not specified: the fields decoded before the failure
  -- UnsetField(id): the field is gone, value and all — except the bitmap field, which stays
  | .unsetField id => if id = 1 then a else a.erase id
  -- UnsetFields("id.path"): the named subfield of a present composite is gone, with everything below it
  | .unsetPath id path =>
    if id = 1 then a else
    match a id with
    | none => a
    | some v =>
      if path.isEmpty then a.erase id
      else match spec.fieldOf id with
        | none => a
        | some f =>
          match f.unsetValue v path with
          | .ok v' => a.set id v'
          | _ => a
  -- Pack / MarshalJSON / Clone / Describe / GetFields only read
  | .pack => a
  | .json => a
  | .clone => a
  | .describe => a
  | .getFields => a

def specRun (spec : MsgSpec) (a : AbsState) : List Op → AbsState
  | [] => a
  | op :: rest => specRun spec (specStep spec a op) rest

/-! ### "no stale value anywhere": the invariant behind the refinement -/

mutual
/-- every subfield object that is not marked as set is as new, recursively; only tags of
the spec are marked; objects have the type their spec says -/
def Field.Clean : Field → FieldObj → Prop
  | .prim _, .prim _ => True
  | .prim _, .comp _ _ => False
  | .comp _ subs, .comp objs set =>
    (∀ t, t ∈ set → lookupField subs t = true) ∧ Field.CleanSubs subs objs set
  | .comp _ _, .prim _ => False

def Field.CleanSubs : List (Tag × Field) → List (Tag × FieldObj) → List Tag → Prop
  | [], _, _ => True
  | (t, f) :: rest, objs, set =>
    (set.contains t = false → getSub f t objs = f.fresh) ∧ f.Clean (getSub f t objs) ∧
      Field.CleanSubs rest objs set
end

/-- every field object that is not marked present is as new, the others are clean;
only ids of the spec are marked; the bitmap field (id 1) is marked -/
def MsgObj.Clean (spec : MsgSpec) (o : MsgObj) : Prop :=
  (∀ i, i ∈ o.present → i = 1 ∨ (spec.fieldOf i).isSome = true) ∧
  o.present.contains 1 = true ∧
  ∀ id f, spec.fieldOf id = some f →
    (o.present.contains id = false → o.get id f = f.fresh) ∧ f.Clean (o.get id f)

/-- the operation's input decodes (a decoder that stops half-way leaves subfields it has
already filled in objects it has not marked yet — the one way to break `Clean`) -/
def Op.decodeOK (spec : MsgSpec) : Op → Bool
  | .unpack b => match spec.unpack b with | .ok _ => true | _ => false
  | .setField id b =>
    match spec.fieldOf id with
    | some (.comp s subs) => (match Field.unpackBody s subs b false with | .ok _ => true | _ => false)
    | _ => true
  | _ => true

mutual
/-- subfield tags are pairwise distinct at every level (part of `Field.coherent`, K6) -/
def Field.distinctTags : Field → Bool
  | .prim _ => true
  | .comp _ subs => noDupTags (subs.map (·.1)) && Field.distinctTagsSubs subs

def Field.distinctTagsSubs : List (Tag × Field) → Bool
  | [] => true
  | (_, f) :: rest => f.distinctTags && Field.distinctTagsSubs rest
end

/-- the part of `MsgSpec.coherent` the history theorems use: data elements have ids ≥ 2
(K8) and pairwise distinct subfield tags at every level (K6) -/
def MsgSpec.tagsOK (spec : MsgSpec) : Bool :=
  spec.fields.all (fun p => decide (2 ≤ p.1) && p.2.distinctTags)

/-! ### observations -/

/-- what the history properties observe of a message: the ids `GetFields` reports, the
content (values of present fields, canonical order), the result of `Pack`, and the JSON -/
structure Obs where
  ids : List Nat
  content : Msg
  packed : Res Bytes
  json : Option JVal

def MsgObj.obs (spec : MsgSpec) (o : MsgObj) : Obs :=
  { ids := o.sortedIds,
    content := o.content spec o.sortedIds,
    packed := (o.pack spec).2,
    json := (o.json spec).2 }

/-- `Message.Unmarshal` into a struct with one pointer member per id of `want`: the ids
that get a value copied out -/
def MsgObj.unmarshalIds (spec : MsgSpec) (o : MsgObj) (want : List Nat) : List Nat :=
  want.filter fun i => (i == 1 || (spec.fieldOf i).isSome) && o.present.contains i

/-- ids `pack` flags in the bitmap (and emits), in the order it emits them -/
def MsgObj.packedIds (spec : MsgSpec) (o : MsgObj) : List Nat :=
  (sortBy (fun a b => decide (a.1 < b.1)) ((o.touchBitmap spec).content spec (o.touchBitmap spec).present).fields).map (·.1)

/-- keys of a JSON object -/
def JVal.keys : JVal → List Bytes
  | .obj kvs => kvs.map (·.1)
  | _ => []

end Iso8583
