/-
Meaning of the few library / runtime calls that occur inside the conditions the translator
renders (harness/cmd/extract/guards.go → Gen/Guards*.lean), over `Int`:
  `len(strconv.Itoa(n))`  ↦ `itoaLen n`   (decimal digits of |n|, plus one for the sign)
Everything else in a translated condition is integer arithmetic and comparison.
-/
import Iso8583.Gen.Consts
import Iso8583.Spec.GuardFnsBits
namespace Iso8583.GuardFns

/-- number of decimal digits of `n` (1 for 0), by fuel -/
def decLenF : Nat → Nat → Nat
  | 0, _ => 1
  | f + 1, n => if n < 10 then 1 else 1 + decLenF f (n / 10)

def decLen (n : Nat) : Nat := decLenF n n

/-- `len(strconv.Itoa(n))` -/
def itoaLen (n : Int) : Int := if n < 0 then 1 + (decLen n.natAbs : Int) else (decLen n.toNat : Int)

theorem decLenF_pos (f n : Nat) : 1 ≤ decLenF f n := by
  cases f with
  | zero => simp [decLenF]
  | succ f => simp only [decLenF]; split <;> omega

/-- `decLen n ≤ d ↔ n < 10^d` for `d ≥ 1` -/
theorem decLenF_le_iff (d : Nat) : ∀ (f n : Nat), n ≤ f → (decLenF f n ≤ d + 1 ↔ n < 10 ^ (d + 1)) := by
  induction d with
  | zero =>
    intro f n hf
    cases f with
    | zero => have : n = 0 := by omega
              subst this; simp [decLenF]
    | succ f =>
      simp only [decLenF]
      split
      · simp; omega
      · have := decLenF_pos f (n / 10)
        simp; omega
  | succ d ih =>
    intro f n hf
    cases f with
    | zero => have : n = 0 := by omega
              subst this
              have : 0 < 10 ^ (d + 1 + 1) := Nat.pow_pos (by omega)
              simp [decLenF, this]
    | succ f =>
      simp only [decLenF]
      split
      · rename_i h
        have : (10 : Nat) ≤ 10 ^ (d + 1 + 1) := by
          calc (10 : Nat) = 10 ^ 1 := by simp
            _ ≤ 10 ^ (d + 1 + 1) := Nat.pow_le_pow_right (by omega) (by omega)
        constructor
        · intro _; omega
        · intro _; omega
      · rename_i h
        have hdiv : n / 10 ≤ f := by omega
        have := ih f (n / 10) hdiv
        rw [show 1 + decLenF f (n / 10) ≤ d + 1 + 1 ↔ decLenF f (n / 10) ≤ d + 1 by omega, this]
        rw [Nat.div_lt_iff_lt_mul (by omega)]
        simp [Nat.pow_succ]

theorem decLen_le_iff (n d : Nat) (hd : 1 ≤ d) : decLen n ≤ d ↔ n < 10 ^ d := by
  obtain ⟨k, rfl⟩ : ∃ k, d = k + 1 := ⟨d - 1, by omega⟩
  exact decLenF_le_iff k n n (Nat.le_refl n)

/-- the digit-count condition of the decimal prefixers, for a non-negative length -/
theorem itoaLen_gt_iff (n d : Nat) (hd : 1 ≤ d) : itoaLen (n : Int) > (d : Int) ↔ n ≥ 10 ^ d := by
  have h := decLen_le_iff n d hd
  unfold itoaLen
  have : ¬ ((n : Int) < 0) := by omega
  simp only [this, if_false, Int.toNat_natCast]
  omega

example : itoaLen 0 = 1 ∧ itoaLen 9 = 1 ∧ itoaLen 10 = 2 ∧ itoaLen 999 = 3 ∧ itoaLen (-5) = 2 := by decide

end Iso8583.GuardFns
