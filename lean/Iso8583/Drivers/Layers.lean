/-
Line-protocol handlers for the foundation layers (DESIGN.md §3.3).
-/
import Iso8583.Model.Encoding
import Iso8583.Model.Prefix
import Iso8583.Model.Padding
import Iso8583.Model.Bitmap

namespace Iso8583.Drivers.Layers
open Iso8583

def showResBytes : Res Bytes → String
  | .ok bs => "ok " ++ toHexString bs
  | .err => "err"
  | .panic => "panic"

def showResBytesNat : Res (Bytes × Nat) → String
  | .ok (bs, n) => "ok " ++ toHexString bs ++ " " ++ toString n
  | .err => "err"
  | .panic => "panic"

def showResNatNat : Res (Nat × Nat) → String
  | .ok (a, n) => "ok " ++ toString a ++ " " ++ toString n
  | .err => "err"
  | .panic => "panic"

def padOf? (kind : String) (c : String) : Option Pad :=
  match kind, parseHexString c with
  | "nil", _ => some .nil
  | "none", _ => some .none
  | "L", some [x] => some (.left x)
  | "R", some [x] => some (.right x)
  | _, _ => none

/-- bitmap op script: `set:n`, `isset:n`, `len`, `bytes`, `pres:n`, `reset` separated by `,` -/
def runBitmapOps (specLen : Nat) (auto : Bool) (ops : List String) : String :=
  let step (st : Bitmap × List String) (op : String) : Bitmap × List String :=
    let (bm, out) := st
    match op.splitOn ":" with
    | ["set", n] => (bm.set (n.toInt?.getD 0).toNat, out)   -- n ≤ 0: no-op, as for 0
    | ["isset", n] => (bm, out ++ [if bm.isSet (n.toInt?.getD 0).toNat then "1" else "0"])
    | ["pres", n] => (bm, out ++ [if bm.isPresenceBit (n.toInt?.getD 0).toNat then "1" else "0"])
    | ["len"] => (bm, out ++ [toString bm.len])
    | ["bytes"] => (bm, out ++ [toHexString bm.data])
    | ["reset"] => (Bitmap.reset specLen auto, out)
    | _ => (bm, out ++ ["bad-op"])
  let (_, out) := ops.foldl step (Bitmap.reset specLen auto, [])
  " ".intercalate out

/-- channels E (encoders), P (prefixers), D (padding), B (bitmap) -/
def handleStr (toks : List String) : String :=
  match toks with
  | ["E", e, "enc", hex] =>
    match Enc.ofName? e, parseHexString hex with
    | some enc, some bs => showResBytes (Enc.encode enc bs)
    | _, _ => "bad-op"
  | ["E", e, "dec", n, hex] =>
    match Enc.ofName? e, n.toInt?, parseHexString hex with
    | some enc, some k, some bs => showResBytesNat (Enc.decode enc bs k)
    | _, _, _ => "bad-op"
  | ["P", p, "enc", maxLen, n] =>
    match Pref.ofName? p, maxLen.toNat?, n.toNat? with
    | some pr, some m, some k => showResBytes (Pref.encodeLength pr m k)
    | _, _, _ => "bad-op"
  | ["P", p, "dec", maxLen, hex] =>
    match Pref.ofName? p, maxLen.toNat?, parseHexString hex with
    | some pr, some m, some bs => showResNatNat (Pref.decodeLength pr m bs)
    | _, _, _ => "bad-op"
  | ["D", kind, c, "pad", n, hex, cap] =>
    match padOf? kind c, n.toNat?, parseHexString hex, parseHexString cap with
    | some p, some k, some bs, some spare =>
      let (res, arr) := Pad.padMem p { arr := bs ++ spare, len := bs.length } k
      toHexString res ++ " " ++ toHexString arr
    | _, _, _, _ => "bad-op"
  | ["D", kind, c, "unpad", hex] =>
    match padOf? kind c, parseHexString hex with
    | some p, some bs => toHexString (Pad.unpad p bs)
    | _, _ => "bad-op"
  | ["B", "ops", specLen, auto, ops] =>
    match specLen.toNat? with
    | some l => runBitmapOps l (auto == "1") (ops.splitOn ",")
    | none => "bad-op"
  | ["B", "unpack", e, p, specLen, auto, hex] =>
    match Enc.ofName? e, Pref.ofName? p, specLen.toNat?, parseHexString hex with
    | some enc, some pr, some l, some bs =>
      match Bitmap.unpack enc pr (Bitmap.reset l (auto == "1")) bs with
      | .ok (bm, read) => "ok " ++ toHexString bm.data ++ " " ++ toString read
      | .err => "err"
      | .panic => "panic"
    | _, _, _, _ => "bad-op"
  | _ => "bad-op"

/-- channel Q: a sequence of D / E / P operations on shared objects, results rendered after the
last one (harness/impl/seq.go). Padders, encoders and prefixers are functions in the model, so
every sub-line is evaluated on its own. -/
def handleSeq (subs : String) : String :=
  let rs := (subs.splitOn "|").map fun sub =>
    match sub.splitOn "," with
    | c :: rest => if c = "E" ∨ c = "P" ∨ c = "D" then handleStr (c :: rest) else "bad-op"
    | [] => "bad-op"
  if rs.contains "bad-op" then "bad-op" else " | ".intercalate rs

def handle (toks : List String) : Option String :=
  match toks with
  | ["Q", subs] => some (handleSeq subs)
  | c :: _ => if c = "E" ∨ c = "P" ∨ c = "D" ∨ c = "B" then some (handleStr toks) else none
  | [] => none

end Iso8583.Drivers.Layers
