/-
Line-protocol handler for the Describe filters (channel X):
  X filter <GoFilterName> <hex in>        → ok <hex out> | panic
  X default <field id>                    → the filter DefaultFilters() installs for the id, or `none`
The Go side calls the exported filter function of /repo/field_filter.go on the same text (the
`data field.Field` argument is no longer used by the filters; a String field holding the text is passed).
-/
import Iso8583.Model.Describe

namespace Iso8583.Drivers.Describe
open Iso8583 Iso8583.Describe

def handle (toks : List String) : Option String :=
  match toks with
  | ["X", "filter", name, hex] =>
    match parseHexString hex with
    | some bs =>
      match filterByName name bs with
      | some (.ok out) => some ("ok " ++ toHexString out)
      | some .panic => some "panic"
      | some .err => some "err"
      | none => some "bad-op"
    | none => some "bad-op"
  | ["X", "default", id] => some ((defaultFilterFor id).getD "none")
  | "X" :: _ => some "bad-op"
  | _ => none

end Iso8583.Drivers.Describe
