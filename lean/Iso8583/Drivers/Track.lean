/-
Protocol handler for channel Y (track fields); mirror image of harness/impl/track.go.

  Y <trackspec> pack <components>            → ok <hex> | err
  Y <trackspec> packobs <components>         → <pack result> <components read back after Pack, String, Bytes, JSON>
  Y <trackspec> unpack <hex>                 → ok <components> <read> | err | panic
  Y <trackspec> unpack2 <hex1> <hex2>        → <ok|err>; <result of the second Unpack into the same object>
  Y <trackspec> setunpack <components> <hex> → result of Unpack into an object that held <components>
  Y <trackspec> repack <hex>                 → unpack-err | ok <hex> | err
  Y <trackspec> cycle <hex>                  → unpack-err | pack-err | ok <hex> -> <Unpack of the re-packed bytes, fresh object>
  Y <trackspec> rt <components>              → holds | vacuous | FAILS   (round-trip statement on the model)
  Y <trackspec> dom <components>             → 1 | 0                      (TrackSpec.coherent ∧ inDomain)
-/
import Iso8583.Drivers.Tree
import Iso8583.Spec.TrackDomain

namespace Iso8583.Drivers.TrackDrv
open Iso8583 Iso8583.Drivers

def kindOfStr : String → Option TrackKind
  | "1" => some .t1 | "2" => some .t2 | "3" => some .t3 | _ => none

def specOfTree : Tree → Option TrackSpec
  | .node "t" [.node k [], .node len [], .node enc [], .node pref [], .node pad [], .node packer []] =>
    match kindOfStr k, len.toNat?, Enc.ofName? enc, Pref.ofName? pref, padOfStr pad with
    | some k, some l, some e, some p, some pd =>
      if packer = "d" then some { kind := k, len := l, enc := e, pref := p, pad := pd, packer := .default }
      else if packer = "t2" then some { kind := k, len := l, enc := e, pref := p, pad := pd, packer := .track2 }
      else none
    | _, _, _, _, _ => none
  | _ => none

def expiryOfStr (s : String) : Option (Option Expiry) :=
  if s = "-" then some none
  else match s.toNat? with
    | some n =>
      if 1 ≤ n % 100 ∧ n % 100 ≤ 12 ∧ n / 100 ≤ 9999 then some (some { year := n / 100, month := n % 100 }) else none
    | none => none

def strOfExpiry : Option Expiry → String
  | none => "-"
  | some e => toString (e.year * 100 + e.month)

def valOfTree (k : TrackKind) : Tree → Option TrackVal
  | .node "v1" [.node fl [], .node fc [], .node pan [], .node name [], .node exp [], .node sc [], .node dd []] =>
    match k, parseHexString fc, parseHexString pan, parseHexString name, expiryOfStr exp, parseHexString sc, parseHexString dd with
    | .t1, some fc, some pan, some name, some exp, some sc, some dd =>
      if fl = "0" ∨ fl = "1" then
        some (.t1 { fixedLength := fl = "1", formatCode := fc, pan := pan, name := name, expiry := exp, serviceCode := sc, data := dd })
      else none
    | _, _, _, _, _, _, _ => none
  | .node "v2" [.node pan [], .node sep [], .node exp [], .node sc [], .node dd []] =>
    match k, parseHexString pan, parseHexString sep, expiryOfStr exp, parseHexString sc, parseHexString dd with
    | .t2, some pan, some sep, some exp, some sc, some dd =>
      some (.t2 { pan := pan, sep := sep, expiry := exp, serviceCode := sc, data := dd })
    | _, _, _, _, _, _ => none
  | .node "v3" [.node fc [], .node pan [], .node dd []] =>
    match k, parseHexString fc, parseHexString pan, parseHexString dd with
    | .t3, some fc, some pan, some dd => some (.t3 { formatCode := fc, pan := pan, data := dd })
    | _, _, _, _ => none
  | _ => none

def h (b : Bytes) : Tree := Tree.atom (toHexString b)

def treeOfVal : TrackVal → Tree
  | .t1 v => .node "v1" [Tree.atom (if v.fixedLength then "1" else "0"), h v.formatCode, h v.pan, h v.name,
      Tree.atom (strOfExpiry v.expiry), h v.serviceCode, h v.data]
  | .t2 v => .node "v2" [h v.pan, h v.sep, Tree.atom (strOfExpiry v.expiry), h v.serviceCode, h v.data]
  | .t3 v => .node "v3" [h v.formatCode, h v.pan, h v.data]

def showRes : Res Bytes → String
  | .ok bs => "ok " ++ toHexString bs
  | .err => "err"
  | .panic => "panic"

def showUnpack : TrackVal × Res Nat → String
  | (v, .ok read) => "ok " ++ (treeOfVal v).toStr ++ " " ++ toString read
  | (_, .err) => "err"
  | (_, .panic) => "panic"

def status : Res Nat → String
  | .ok _ => "ok" | .err => "err" | .panic => "panic"

/-- the object a round-trip unpack starts from: fresh, with the same `FixedLength` option -/
def freshLike (s : TrackSpec) (v : TrackVal) : TrackVal :=
  match v with
  | .t1 x => .t1 { fixedLength := x.fixedLength }
  | _ => s.fresh

def handle (toks : List String) : Option String :=
  match toks with
  | ["Y", spec, "pack", val] =>
    some <| match (Tree.ofString spec).bind specOfTree with
    | some s =>
      match (Tree.ofString val).bind (valOfTree s.kind) with
      | some v => showRes (s.pack v)
      | none => "bad-op"
    | none => "bad-op"
  | ["Y", spec, "packobs", val] =>
    -- Pack / String / Bytes / JSON encoding are functions of the value in the model: the components
    -- read back afterwards are the ones that were set
    some <| match (Tree.ofString spec).bind specOfTree with
    | some s =>
      match (Tree.ofString val).bind (valOfTree s.kind) with
      | some v => showRes (s.pack v) ++ " " ++ (treeOfVal v).toStr
      | none => "bad-op"
    | none => "bad-op"
  | ["Y", spec, "unpack", hex] =>
    some <| match (Tree.ofString spec).bind specOfTree, parseHexString hex with
    | some s, some d => showUnpack (s.unpack s.fresh d)
    | _, _ => "bad-op"
  | ["Y", spec, "unpack2", hex1, hex2] =>
    some <| match (Tree.ofString spec).bind specOfTree, parseHexString hex1, parseHexString hex2 with
    | some s, some d1, some d2 =>
      let r1 := s.unpack s.fresh d1
      status r1.2 ++ "; " ++ showUnpack (s.unpack r1.1 d2)
    | _, _, _ => "bad-op"
  | ["Y", spec, "setunpack", val, hex] =>
    some <| match (Tree.ofString spec).bind specOfTree, parseHexString hex with
    | some s, some d =>
      match (Tree.ofString val).bind (valOfTree s.kind) with
      | some v => showUnpack (s.unpack v d)
      | none => "bad-op"
    | _, _ => "bad-op"
  | ["Y", spec, "repack", hex] =>
    some <| match (Tree.ofString spec).bind specOfTree, parseHexString hex with
    | some s, some d =>
      match s.unpack s.fresh d with
      | (v, .ok _) => showRes (s.pack v)
      | _ => "unpack-err"
    | _, _ => "bad-op"
  | ["Y", spec, "cycle", hex] =>
    some <| match (Tree.ofString spec).bind specOfTree, parseHexString hex with
    | some s, some d =>
      match s.unpack s.fresh d with
      | (v, .ok _) =>
        match s.pack v with
        | .ok bs => "ok " ++ toHexString bs ++ " -> " ++ showUnpack (s.unpack s.fresh bs)
        | _ => "pack-err"
      | _ => "unpack-err"
    | _, _ => "bad-op"
  | ["Y", spec, "rt", val] =>
    some <| match (Tree.ofString spec).bind specOfTree with
    | some s =>
      match (Tree.ofString val).bind (valOfTree s.kind) with
      | some v =>
        match s.pack v with
        | .ok bs =>
          let tail : Bytes := if s.pref = .none then [] else [0x31, 0xFF]
          match s.unpack (freshLike s v) (bs ++ tail) with
          | (v', .ok read) =>
            if v' = v.canon ∧ read = bs.length ∧ s.pack v' = .ok bs then "holds" else "FAILS"
          | _ => "FAILS"
        | _ => "vacuous"
      | none => "bad-op"
    | none => "bad-op"
  | ["Y", spec, "dom", val] =>
    some <| match (Tree.ofString spec).bind specOfTree with
    | some s =>
      match (Tree.ofString val).bind (valOfTree s.kind) with
      | some v => if s.coherent && s.inDomain v then "1" else "0"
      | none => "bad-op"
    | none => "bad-op"
  | _ => none

end Iso8583.Drivers.TrackDrv
