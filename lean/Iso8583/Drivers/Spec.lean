/-
Line-protocol handler for channel `S` (spec builder, Model/Builder.lean):

  S import <doc>    → ok <canonical spec tree> | err | panic
  S export <spec>   → ok <canonical doc> | err        (bad-op when the spec does not construct)

One-token textual forms (no spaces). Generic shape: `atom` or `h(arg,arg,…)` with a one-letter
head; inside `m(…)` / `M(…)` the arguments are `key=value`.

  string  ::= '<chars of [A-Za-z0-9._-]>  |  x<lower-case hex of the UTF-8 bytes>
              (canonical: the quote form iff every character is in the safe set)
  int     ::= 0 | [-]<digits without leading zero>          bool ::= T | F
  slot α  ::= _ (key absent) | ~ (null) | ! (wrong JSON type) | α

  doc     ::= d(<slot string name>,<slot m(key=field,…) fields>)
  field   ::= ~ | ! | f(type,length,description,enc,prefix,padding,tag,m(key=field,…),bitmap,dae)
              with slots of string,int,string,string,string,pad,tagdoc,—,(_|field),bool
  pad     ::= p(<slot string type>,<slot string pad>)
  tagdoc  ::= t(<slot int length>,<slot string enc>,<slot pad>,<slot string sort>)

  spec    ::= S(<string name>,M(<int>=Field,…))
  Field   ::= F(<string Go type>,<int length>,<string description>,<string Pref.Inspect()>,
                (_|<string encoder type>),Pad,Tag,M(<string key>=Field,…),(_|Field bitmap),<bool>)
  Pad     ::= _ | P(<string padder type>,<string pad>)
  Tag     ::= _ | T(<int length>,(_|<string encoder type>),Pad,(_|<string sort function>))

Canonical output sorts map entries (subfields by key, message fields by index).
-/
import Iso8583.Model.Builder

namespace Iso8583.Drivers.Spec
open Iso8583 Iso8583.Builder

/-! ### generic terms -/

inductive Sx where
  | atom (s : String)
  | node (h : String) (args : List Sx)
  | kv (k : String) (v : Sx)
deriving Inhabited

def isDelim (c : Char) : Bool := c == '(' || c == ')' || c == ',' || c == '='

mutual
partial def parseTerm (cs : List Char) : Option (Sx × List Char) :=
  let tok := cs.takeWhile (fun c => !isDelim c)
  let rest := cs.dropWhile (fun c => !isDelim c)
  match rest with
  | '(' :: rest' =>
    if tok.length != 1 then none else
    match rest' with
    | ')' :: r => some (.node (String.ofList tok) [], r)
    | _ =>
      match parseArgs rest' with
      | some (args, r) => some (.node (String.ofList tok) args, r)
      | none => none
  | '=' :: rest' =>
    match parseTerm rest' with
    | some (v, r) => some (.kv (String.ofList tok) v, r)
    | none => none
  | _ => if tok.isEmpty then none else some (.atom (String.ofList tok), rest)
partial def parseArgs (cs : List Char) : Option (List Sx × List Char) :=
  match parseTerm cs with
  | some (t, ',' :: r) =>
    match parseArgs r with
    | some (ts, r') => some (t :: ts, r')
    | none => none
  | some (t, ')' :: r) => some ([t], r)
  | _ => none
end

def parseSx (s : String) : Option Sx :=
  match parseTerm s.toList with
  | some (t, []) => some t
  | _ => none

/-! ### atoms -/

def safeChar (c : Char) : Bool := c.isAlphanum || c == '.' || c == '_' || c == '-'

def showStr (s : String) : String :=
  if s.toList.all safeChar then "'" ++ s
  else "x" ++ String.ofList (s.toUTF8.toList.flatMap hexOfByte)

def isLowerHex (c : Char) : Bool := c.isDigit || ('a' ≤ c && c ≤ 'f')

def parseStr (a : String) : Option String :=
  match a.toList with
  | '\'' :: cs => if cs.all safeChar then some (String.ofList cs) else none
  | 'x' :: cs =>
    if !cs.all isLowerHex then none else
    match parseHexChars cs with
    | some bs =>
      match String.fromUTF8? (ByteArray.mk bs.toArray) with
      | some s => if showStr s == a then some s else none   -- only the canonical spelling
      | none => none
    | none => none
  | _ => none

def parseInt (a : String) : Option Int :=
  match a.toInt? with
  | some n => if toString n == a then some n else none
  | none => none

/-- a Go `int` (lengths and indices of a spec tree) -/
def parseInt64 (a : String) : Option Int :=
  match parseInt a with
  | some n => if inInt64 n then some n else none
  | none => none

def parseBool (a : String) : Option Bool :=
  if a == "T" then some true else if a == "F" then some false else none

def showBool (b : Bool) : String := if b then "T" else "F"

def parseSlot {α : Type} (f : Sx → Option α) (t : Sx) : Option (Slot α) :=
  match t with
  | .atom "_" => some .absent
  | .atom "~" => some .null
  | .atom "!" => some .bad
  | t => (f t).map .val

def atomOf (f : String → Option α) : Sx → Option α
  | .atom a => f a
  | _ => none

def showSlot {α : Type} (f : α → String) : Slot α → String
  | .absent => "_"
  | .null => "~"
  | .bad => "!"
  | .val a => f a

/-! ### documents -/

def parsePadDoc : Sx → Option PadDoc
  | .node "p" [a, b] =>
    match parseSlot (atomOf parseStr) a, parseSlot (atomOf parseStr) b with
    | some x, some y => some { type := x, pad := y }
    | _, _ => none
  | _ => none

def parseTagDoc : Sx → Option TagDoc
  | .node "t" [a, b, c, d] =>
    match parseSlot (atomOf parseInt) a, parseSlot (atomOf parseStr) b, parseSlot parsePadDoc c,
          parseSlot (atomOf parseStr) d with
    | some l, some e, some p, some s => some { length := l, enc := e, padding := p, sort := s }
    | _, _, _, _ => none
  | _ => none

def allSome {α : Type} : List (Option α) → Option (List α)
  | [] => some []
  | some a :: r => (allSome r).map (a :: ·)
  | none :: _ => none

mutual
partial def parseFieldDoc : Sx → Option FieldDoc
  | .atom "~" => some .null
  | .atom "!" => some .bad
  | .node "f" [ty, len, desc, enc, pref, pad, tag, subs, bm, dae] =>
    match parseSlot (atomOf parseStr) ty, parseSlot (atomOf parseInt) len, parseSlot (atomOf parseStr) desc,
          parseSlot (atomOf parseStr) enc, parseSlot (atomOf parseStr) pref, parseSlot parsePadDoc pad,
          parseSlot parseTagDoc tag, parseDocMap subs,
          (match bm with | .atom "_" => some none | t => (parseFieldDoc t).map some),
          parseSlot (atomOf parseBool) dae with
    | some a, some b, some c, some d, some e, some f, some g, some h, some i, some j =>
      some (.obj a b c d e f g h i j)
    | _, _, _, _, _, _, _, _, _, _ => none
  | _ => none
partial def parseDocMap : Sx → Option (List (String × FieldDoc))
  | .node "m" entries =>
    allSome (entries.map fun e =>
      match e with
      | .kv k v =>
        match parseStr k, parseFieldDoc v with
        | some k', some v' => some (k', v')
        | _, _ => none
      | _ => none)
  | _ => none
end

def parseSpecDoc : Sx → Option SpecDoc
  | .node "d" [n, fs] =>
    match parseSlot (atomOf parseStr) n, parseSlot parseDocMap fs with
    | some a, some b => some { name := a, fields := b }
    | _, _ => none
  | _ => none

def insertBy {α : Type} (lt : α → α → Bool) (x : α) : List α → List α
  | [] => [x]
  | y :: ys => if lt x y then x :: y :: ys else y :: insertBy lt x ys

def sortBy {α : Type} (lt : α → α → Bool) (xs : List α) : List α := xs.foldr (insertBy lt) []

def showPadDoc (p : PadDoc) : String := "p(" ++ showSlot showStr p.type ++ "," ++ showSlot showStr p.pad ++ ")"

def showTagDoc (t : TagDoc) : String :=
  "t(" ++ showSlot toString t.length ++ "," ++ showSlot showStr t.enc ++ "," ++ showSlot showPadDoc t.padding
    ++ "," ++ showSlot showStr t.sort ++ ")"

mutual
partial def showFieldDoc : FieldDoc → String
  | .null => "~"
  | .bad => "!"
  | .obj ty len desc enc pref pad tag subs bm dae =>
    "f(" ++ showSlot showStr ty ++ "," ++ showSlot toString len ++ "," ++ showSlot showStr desc ++ ","
      ++ showSlot showStr enc ++ "," ++ showSlot showStr pref ++ "," ++ showSlot showPadDoc pad ++ ","
      ++ showSlot showTagDoc tag ++ "," ++ showDocMap (fun a b => decide (a < b)) subs ++ ","
      ++ (match bm with | none => "_" | some d => showFieldDoc d) ++ "," ++ showSlot showBool dae ++ ")"
partial def showDocMap (lt : String → String → Bool) (m : List (String × FieldDoc)) : String :=
  "m(" ++ ",".intercalate ((sortBy (fun a b => lt a.1 b.1) m).map fun e => showStr e.1 ++ "=" ++ showFieldDoc e.2) ++ ")"
end

/-- message fields are ordered by index (keys that are not integers last, by text) -/
def topLt (a b : String) : Bool :=
  match atoi a, atoi b with
  | some x, some y => decide (x < y) || (x == y && decide (a < b))
  | some _, none => true
  | none, some _ => false
  | none, none => decide (a < b)

def showSpecDoc (d : SpecDoc) : String :=
  "d(" ++ showSlot showStr d.name ++ "," ++ showSlot (showDocMap topLt) d.fields ++ ")"

/-! ### spec trees -/

def allPrefs : List Pref :=
  Gen.prefixers.filterMap fun r => prefOfType r.2.2.1 r.2.2.2

def parsePref (a : String) : Option Pref :=
  match parseStr a with
  | some n => allPrefs.find? (fun p => inspect p == n)
  | none => none

def parseEnc (a : String) : Option Enc := (parseStr a).bind encOfType

def parseOpt {α : Type} (f : Sx → Option α) : Sx → Option (Option α)
  | .atom "_" => some none
  | t => (f t).map some

def parsePad : Sx → Option PadSpec
  | .node "P" [.atom ty, .atom pad] =>
    match parseStr ty, parseStr pad with
    | some "nonePadder", some "" => some .none
    | some "leftPadder", some s => (match s.toList with | [c] => some (.left c) | _ => none)
    | some "rightPadder", some s => (match s.toList with | [c] => some (.right c) | _ => none)
    | _, _ => none
  | _ => none

def parseTag : Sx → Option TagSpec
  | .node "T" [.atom len, enc, pad, sort] =>
    match parseInt64 len, parseOpt (atomOf parseEnc) enc, parseOpt parsePad pad,
          parseOpt (atomOf fun a => (parseStr a).bind SortFn.ofGoName) sort with
    | some l, some e, some p, some s => some { length := l, enc := e, pad := p, sort := s }
    | _, _, _, _ => none
  | _ => none

def nodupKeys {α β : Type} [BEq α] : List (α × β) → Bool
  | [] => true
  | (k, _) :: r => !(r.any (fun e => e.1 == k)) && nodupKeys r

mutual
partial def parseField : Sx → Option (FType × Spec)
  | .node "F" [.atom ty, .atom len, .atom desc, .atom pref, enc, pad, tag, subs, bm, .atom dae] =>
    match (parseStr ty).bind FType.ofGoName, parseInt64 len, parseStr desc, parsePref pref,
          parseOpt (atomOf parseEnc) enc, parseOpt parsePad pad, parseOpt parseTag tag, parseSubs subs,
          parseOpt parseField bm, parseBool dae with
    | some t, some l, some d, some p, some e, some pd, some tg, some ss, some b, some x =>
      match b with
      | some (bt, bs) => if bt == .bitmap then some (t, .mk l d p e pd tg ss (some bs) x) else none
      | none => some (t, .mk l d p e pd tg ss none x)
    | _, _, _, _, _, _, _, _, _, _ => none
  | _ => none
partial def parseSubs : Sx → Option (List (String × FType × Spec))
  | .node "M" entries =>
    match allSome (entries.map fun e =>
      match e with
      | .kv k v =>
        match parseStr k, parseField v with
        | some k', some v' => some (k', v')
        | _, _ => none
      | _ => none) with
    | some l => if nodupKeys l then some l else none
    | none => none
  | _ => none
end

def parseMsg : Sx → Option MsgSpec
  | .node "S" [.atom name, .node "M" entries] =>
    match parseStr name, allSome (entries.map fun e =>
      match e with
      | .kv k v =>
        match parseInt64 k, parseField v with
        | some k', some v' => some (k', v')
        | _, _ => none
      | _ => none) with
    | some n, some l => if nodupKeys l then some { name := n, fields := l } else none
    | _, _ => none
  | _ => none

def showOpt {α : Type} (f : α → String) : Option α → String
  | none => "_"
  | some a => f a

def showPad (p : PadSpec) : String := "P(" ++ showStr (padTypeName p) ++ "," ++ showStr (padText p) ++ ")"

def showTag (t : TagSpec) : String :=
  "T(" ++ toString t.length ++ "," ++ showOpt (fun e => showStr (encTypeName e)) t.enc ++ "," ++ showOpt showPad t.pad
    ++ "," ++ showOpt (fun s => showStr s.goName) t.sort ++ ")"

mutual
partial def showField (ty : FType) : Spec → String
  | .mk len desc p enc pad tag subs bm dae =>
    "F(" ++ showStr ty.goName ++ "," ++ toString len ++ "," ++ showStr desc ++ "," ++ showStr (inspect p) ++ ","
      ++ showOpt (fun e => showStr (encTypeName e)) enc ++ "," ++ showOpt showPad pad ++ "," ++ showOpt showTag tag ++ ","
      ++ showSubs subs ++ "," ++ showOpt (showField .bitmap) bm ++ "," ++ showBool dae ++ ")"
partial def showSubs (m : List (String × FType × Spec)) : String :=
  "M(" ++ ",".intercalate ((sortBy (fun a b => decide (a.1 < b.1)) m).map fun e => showStr e.1 ++ "=" ++ showField e.2.1 e.2.2) ++ ")"
end

def showMsg (m : MsgSpec) : String :=
  "S(" ++ showStr m.name ++ ",M("
    ++ ",".intercalate ((sortBy (fun a b => decide (a.1 < b.1)) m.fields).map fun e => toString e.1 ++ "=" ++ showField e.2.1 e.2.2)
    ++ "))"

/-- can the Go side build this tree with the real constructors (the composite's bitmap with
`NewBitmap`, every field with its constructor, recursively)? -/
partial def buildable (ty : FType) (s : Spec) : Bool :=
  constructs ty s
  && s.subfields.all (fun e => buildable e.2.1 e.2.2)
  && (match s.bitmap with | some b => buildable .bitmap b | none => true)

def handleStr (toks : List String) : String :=
  match toks with
  | ["S", "import", doc] =>
    match (parseSx doc).bind parseSpecDoc with
    | some d =>
      match importJSON d with
      | .ok m => "ok " ++ showMsg m
      | .err => "err"
      | .panic => "panic"
    | none => "bad-op"
  | ["S", "export", spec] =>
    match (parseSx spec).bind parseMsg with
    | some m =>
      if !m.fields.all (fun e => buildable e.2.1 e.2.2) then "bad-op" else
      match exportJSON m with
      | .ok d => "ok " ++ showSpecDoc d
      | .err => "err"
      | .panic => "panic"
    | none => "bad-op"
  | _ => "bad-op"

def handle (toks : List String) : Option String :=
  match toks with
  | c :: _ => if c = "S" then some (handleStr toks) else none
  | [] => none

end Iso8583.Drivers.Spec
