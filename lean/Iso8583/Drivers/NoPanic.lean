/-
Protocol handler for channel W (property C04): `W <ms> <line>` is `<line>` run under a
watchdog on the Go side; the model is total, so the handler drops the two tokens and
answers the inner line. `W <ms> F <spec> setbytes <hex>` is the one inner operation the
other handlers do not have (model: Model/SetBytes.lean).
-/
import Iso8583.Drivers.Layers
import Iso8583.Drivers.Fields
import Iso8583.Drivers.Net
import Iso8583.Model.SetBytes

namespace Iso8583.Drivers.NoPanic
open Iso8583 Iso8583.Drivers

def handle (toks : List String) : Option String :=
  match toks with
  | ["W", _, "F", spec, "setbytes", hex] =>
    some <| match (Tree.ofString spec).bind fieldOfTree, parseHexString hex with
    | some f, some d =>
      match f.setBytes d with
      | .ok v => "ok " ++ (treeOfValue v).toStr
      | .err [] => "err"
      | .err p => "err " ++ pathStr p
      | .panic => "panic"
    | _, _ => "bad-op"
  | "W" :: _ :: rest =>
    some <| match [Layers.handle, Fields.handle, Net.handle].findSome? (fun h => h rest) with
    | some r => r
    | none => "bad-op"
  | _ => none

end Iso8583.Drivers.NoPanic
