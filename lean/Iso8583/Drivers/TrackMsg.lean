/-
Protocol handler for channel YM (messages with track fields, Model/TrackMessage.lean);
mirror image of harness/impl/trackmsg.go.

  YM <tmsgspec> pack <tcontent>   → ok <hex> | err | panic
  YM <tmsgspec> unpack <hex>      → ok <tcontent> <bytes read> | err <path> | panic
  YM <tmsgspec> dom <tcontent>    → 1 | 0      (TMsgSpec.coherent ∧ inDomain)

  tmsgspec ::= m(<mti field>,bm(<len>,<enc>,<pref>,<auto>),f(<id>,<field | trackspec>)…)
  tcontent ::= msg(<mti value | ->,f(<id>,<value | v1(…) | v2(…) | v3(…)>)…)

`field` / `value` are the trees of channels F / M (Drivers/Tree.lean), `trackspec` and the
`v1|v2|v3` component trees those of channel Y (Drivers/Track.lean).
-/
import Iso8583.Drivers.Tree
import Iso8583.Drivers.Track
import Iso8583.Model.TrackMessage

namespace Iso8583.Drivers.TrackMsg
open Iso8583 Iso8583.Drivers

def mfieldOfTree (t : Tree) : Option MField :=
  match t with
  | .node "t" _ => (TrackDrv.specOfTree t).map .track
  | _ => (fieldOfTree t).map .plain

def specOfTree : Tree → Option TMsgSpec
  | .node "m" (mti :: .node "bm" [.node bl [], .node be [], .node bp [], .node auto []] :: fields) =>
    let fields? : Option (List (Nat × MField)) := fields.mapM (fun (k : Tree) => match k with
      | Tree.node "f" [Tree.node id [], f] =>
        match id.toNat?, mfieldOfTree f with
        | some i, some x => some (i, x)
        | _, _ => none
      | _ => none)
    match fieldOfTree mti, bl.toNat?, Enc.ofName? be, Pref.ofName? bp, fields? with
    | some (.prim ms), some l, some e, some p, some fs =>
      some { mti := ms, bitmap := { specLen := l, enc := e, pref := p, auto := auto = "1" }, fields := fs }
    | _, _, _, _, _ => none
  | _ => none

/-- a value tree; a track value must have the kind of the track field declared for the id
(anything else can not be built in Go: `Marshal` refuses it) -/
def mvalueOfTree (spec : TMsgSpec) (id : Nat) (t : Tree) : Option MValue :=
  match t with
  | .node "v1" _ | .node "v2" _ | .node "v3" _ =>
    match lookupId id spec.fields with
    | some (.track s) => (TrackDrv.valOfTree s.kind t).map .track
    | _ => none
  | _ =>
    match lookupId id spec.fields with
    | some (.track _) => none
    | _ => (valueOfTree t).map .plain

def msgOfTree (spec : TMsgSpec) : Tree → Option TMsg
  | .node "msg" (mti :: fields) =>
    let mti? : Option (Option Value) := match mti with
      | .node "-" [] => some none
      | t => (valueOfTree t).map some
    let fields? : Option (List (Nat × MValue)) := fields.mapM (fun (k : Tree) => match k with
      | Tree.node "f" [Tree.node id [], v] =>
        match id.toNat? with
        | some i => (mvalueOfTree spec i v).map (fun x => (i, x))
        | none => none
      | _ => none)
    match mti?, fields? with
    | some m, some fs => some { mti := m, fields := fs }
    | _, _ => none
  | _ => none

def treeOfMValue : MValue → Tree
  | .plain v => treeOfValue v
  | .track v => TrackDrv.treeOfVal v

def treeOfMsg (m : TMsg) : Tree :=
  .node "msg" ((match m.mti with | some v => treeOfValue v | none => Tree.atom "-") ::
    m.fields.map fun (i, v) => .node "f" [Tree.atom (toString i), treeOfMValue v])

def showRes : Res Bytes → String
  | .ok bs => "ok " ++ toHexString bs
  | .err => "err"
  | .panic => "panic"

def handle (toks : List String) : Option String :=
  match toks with
  | ["YM", spec, "pack", msg] =>
    some <| match (Tree.ofString spec).bind specOfTree with
    | some s =>
      match (Tree.ofString msg).bind (msgOfTree s) with
      | some m => showRes (s.pack m)
      | none => "bad-op"
    | none => "bad-op"
  | ["YM", spec, "unpack", hex] =>
    some <| match (Tree.ofString spec).bind specOfTree, parseHexString hex with
    | some s, some d =>
      match s.unpack d with
      | .ok (m, read) => "ok " ++ (treeOfMsg m).toStr ++ " " ++ toString read
      | .err p => "err " ++ pathStr p
      | .panic => "panic"
    | _, _ => "bad-op"
  | ["YM", spec, "dom", msg] =>
    some <| match (Tree.ofString spec).bind specOfTree with
    | some s =>
      match (Tree.ofString msg).bind (msgOfTree s) with
      | some m => if s.coherent && s.inDomain m then "1" else "0"
      | none => "bad-op"
    | none => "bad-op"
  | _ => none

end Iso8583.Drivers.TrackMsg
