/-
Generic one-line tree syntax used by the spec/value protocol tokens:
  tree ::= atom | atom '(' tree (',' tree)* ')' | atom '()'
An atom is any run of characters other than '(' ')' ','. Conversions between trees and
the model's spec / value types live here too (the Go harness has the mirror image in
harness/impl/tree.go).
-/
import Iso8583.Model.Message

namespace Iso8583.Drivers
open Iso8583

inductive Tree where
  | node (name : String) (kids : List Tree)
deriving Repr, Inhabited

namespace Tree

def isDelim (c : Char) : Bool := c == '(' || c == ')' || c == ','

def takeAtom : List Char → List Char → (List Char × List Char)
  | [], acc => (acc.reverse, [])
  | c :: cs, acc => if isDelim c then (acc.reverse, c :: cs) else takeAtom cs (c :: acc)

mutual
/-- parse one tree; fuel bounds the recursion by the input length -/
def parse : Nat → List Char → Option (Tree × List Char)
  | 0, _ => none
  | fuel + 1, cs =>
    let (a, rest) := takeAtom cs []
    match rest with
    | '(' :: ')' :: rest' => some (.node (String.ofList a) [], rest')
    | '(' :: rest' =>
      match parseKids fuel rest' with
      | some (kids, rest'') => some (.node (String.ofList a) kids, rest'')
      | none => none
    | _ => some (.node (String.ofList a) [], rest)

def parseKids : Nat → List Char → Option (List Tree × List Char)
  | 0, _ => none
  | fuel + 1, cs =>
    match parse fuel cs with
    | none => none
    | some (t, rest) =>
      match rest with
      | ',' :: rest' =>
        match parseKids fuel rest' with
        | some (ts, rest'') => some (t :: ts, rest'')
        | none => none
      | ')' :: rest' => some ([t], rest')
      | _ => none
end

def ofString (s : String) : Option Tree :=
  match parse (s.length + 2) s.toList with
  | some (t, []) => some t
  | _ => none

partial def toStr : Tree → String
  | .node n [] => n
  | .node n kids => n ++ "(" ++ ",".intercalate (kids.map toStr) ++ ")"

def atom (s : String) : Tree := .node s []

end Tree

/-! ### trees ↔ specs -/

def padOfStr (s : String) : Option Pad :=
  if s = "nil" then some .nil
  else if s = "none" then some .none
  else match s.toList with
    | 'L' :: rest => match parseHexString (String.ofList rest) with
      | some [c] => some (.left c) | _ => none
    | 'R' :: rest => match parseHexString (String.ofList rest) with
      | some [c] => some (.right c) | _ => none
    | _ => none

def kindOfStr : String → Option Kind
  | "s" => some .string | "n" => some .numeric | "b" => some .binary | "h" => some .hex | _ => none

def sortOfStr : String → Option SortKind
  | "str" => some .strings | "int" => some .byInt | "hex" => some .byHex | _ => none

def tagOfStr (s : String) : Tag := s.toUTF8.toList

def strOfTag (t : Tag) : String := String.ofList (t.map (fun x => Char.ofNat x.toNat))

def optOf {α : Type} (f : String → Option α) (s : String) : Option (Option α) :=
  if s = "-" then some none else (f s).map some

partial def fieldOfTree : Tree → Option Field
  | .node "p" [.node k [], .node len [], .node enc [], .node pref [], .node pad [], .node packer []] =>
    match kindOfStr k, len.toNat?, Enc.ofName? enc, Pref.ofName? pref, padOfStr pad with
    | some k, some l, some e, some p, some pd =>
      some (.prim { kind := k, len := l, enc := e, pref := p, pad := pd,
                    packer := if packer = "t2" then .track2 else .default })
    | _, _, _, _, _ => none
  | .node "c" (.node len [] :: .node pref [] :: mode :: subs) =>
    let mode? : Option Mode :=
      match mode with
      | .node "t" [.node tl [], .node te [], .node tp [], .node ts [], .node skip [], .node pu []] =>
        match tl.toNat?, optOf Enc.ofName? te, padOfStr tp, sortOfStr ts, optOf Pref.ofName? pu with
        | some l, some e, some p, some s, some u =>
          some (.tagged { len := l, enc := e, pad := p, sort := s, skipUnknown := skip = "1", prefUnknown := u })
        | _, _, _, _, _ => none
      | .node "b" [.node bl [], .node be [], .node bp []] =>
        match bl.toNat?, Enc.ofName? be, Pref.ofName? bp with
        | some l, some e, some p => some (.bitmapped { specLen := l, enc := e, pref := p, auto := false })
        | _, _, _ => none
      | _ => none
    let subs? : Option (List (Tag × Field)) := subs.mapM (fun (k : Tree) => match k with
      | Tree.node "sub" [Tree.node tag [], f] => (fieldOfTree f).map (fun x => (tagOfStr tag, x))
      | _ => none)
    match len.toNat?, Pref.ofName? pref, mode?, subs? with
    | some l, some p, some m, some ss =>
      let sortKind := match m with
        | .tagged t => t.sort
        | .bitmapped _ => SortKind.byInt
      some (.comp { len := l, pref := p, mode := m } (orderSubs sortKind ss))
    | _, _, _, _ => none
  | _ => none

partial def valueOfTree : Tree → Option Value
  | .node "s" [.node h []] => (parseHexString h).map .str
  | .node "b" [.node h []] => (parseHexString h).map .bin
  | .node "h" [.node h []] => (parseHexString h).map .hexv
  | .node "n" [.node i []] => i.toInt?.map .num
  | .node "c" kids =>
    (kids.mapM (fun (k : Tree) => match k with
      | Tree.node "kv" [Tree.node tag [], v] => (valueOfTree v).map (fun x => (tagOfStr tag, x))
      | _ => none)).map Value.comp
  | _ => none

partial def treeOfValue : Value → Tree
  | .str b => .node "s" [Tree.atom (toHexString b)]
  | .bin b => .node "b" [Tree.atom (toHexString b)]
  | .hexv b => .node "h" [Tree.atom (toHexString b)]
  | .num i => .node "n" [Tree.atom (toString i)]
  | .comp [] => Tree.atom "c()"
  | .comp subs => .node "c" (subs.map fun (t, v) => .node "kv" [Tree.atom (strOfTag t), treeOfValue v])

def msgSpecOfTree : Tree → Option MsgSpec
  | .node "m" (mti :: .node "bm" [.node bl [], .node be [], .node bp [], .node auto []] :: fields) =>
    let fields? : Option (List (Nat × Field)) := fields.mapM (fun (k : Tree) => match k with
      | Tree.node "f" [Tree.node id [], f] =>
        match id.toNat?, fieldOfTree f with
        | some i, some x => some (i, x)
        | _, _ => none
      | _ => none)
    match fieldOfTree mti, bl.toNat?, Enc.ofName? be, Pref.ofName? bp, fields? with
    | some (.prim ms), some l, some e, some p, some fs =>
      some { mti := ms, bitmap := { specLen := l, enc := e, pref := p, auto := auto = "1" }, fields := fs }
    | _, _, _, _, _ => none
  | _ => none

/-- message content: `msg(mti-or-"-", f(id,val), …)` -/
def msgOfTree : Tree → Option Msg
  | .node "msg" (mti :: fields) =>
    let mti? : Option (Option Value) := match mti with
      | .node "-" [] => some none
      | t => (valueOfTree t).map some
    let fields? : Option (List (Nat × Value)) := fields.mapM (fun (k : Tree) => match k with
      | Tree.node "f" [Tree.node id [], v] =>
        match id.toNat?, valueOfTree v with
        | some i, some x => some (i, x)
        | _, _ => none
      | _ => none)
    match mti?, fields? with
    | some m, some fs => some { mti := m, fields := fs }
    | _, _ => none
  | _ => none

def treeOfMsg (m : Msg) : Tree :=
  .node "msg" ((match m.mti with | some v => treeOfValue v | none => Tree.atom "-") ::
    m.fields.map fun (i, v) => .node "f" [Tree.atom (toString i), treeOfValue v])

def pathStr (p : List Bytes) : String :=
  "/".intercalate (p.map fun t => if t.isEmpty then "~" else toHexString t)

end Iso8583.Drivers
