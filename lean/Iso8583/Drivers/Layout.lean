/-
Protocol handler for channel R (C03): `R <msgspec> <msg>` prints the bytes the
*reference codec* of Spec/Layout.lean assigns to the message (`ok <hex>`), or `none` when
the layout is undefined. The Go side prints the bytes of the real `Message.Pack` (or `none`
on error), so the diff compares the implementation with the reference, not with the
operational model. `R f <fieldspec> <value>` does the same for a single field.
-/
import Iso8583.Drivers.Tree
import Iso8583.Spec.Layout

namespace Iso8583.Drivers.Layout
open Iso8583 Iso8583.Drivers

def showOpt : Option Bytes → String
  | some bs => "ok " ++ toHexString bs
  | none => "none"

def handle (toks : List String) : Option String :=
  match toks with
  | ["R", spec, msg] =>
    some <| match (Tree.ofString spec).bind msgSpecOfTree, (Tree.ofString msg).bind msgOfTree with
    | some s, some m => showOpt (Iso8583.Layout.refEncode s m)
    | _, _ => "bad-op"
  | ["R", "f", spec, val] =>
    some <| match (Tree.ofString spec).bind fieldOfTree, (Tree.ofString val).bind valueOfTree with
    | some f, some v => showOpt (Iso8583.Layout.encodeField f v)
    | _, _ => "bad-op"
  | _ => none

end Iso8583.Drivers.Layout
