/-
Line-protocol handler for channel G (Go struct Marshal / Unmarshal, property C11):

  G <msg-spec> marshal <struct>                 → ok <msg> | err
  G <msg-spec> unmarshal <msg> <struct>         → ok <struct> | err
  G <msg-spec> rt <struct>                      → ok <struct> | err marshal | err unmarshal
  G <msg-spec> rtw <struct>                     → ok <struct> | err marshal | err pack | err unpack | err unmarshal

<struct> ::= st(fd(<GoName>,<hex of index tag|->,<hex of iso8583 tag|->,<goval>),…) | st()
<goval>  ::= str(<hex>) | int(<dec>) | i64(<dec>) | bytes(<hex>) | nilbytes | ptr(<goval>) | nilptr(<goval>)
           | ls(<hex>) | nills | ln(<dec>) | nilln | lb(<hex>) | nillb | lh(<hex>) | nillh
           | sp(fd(…),…) | sp() | nilsp(fd(…),…) | nilsp()
`rt` marshals the struct into a fresh message and unmarshals that message into the zero
value of the same struct type; `rtw` packs the message and unpacks the bytes into a second
message in between.  In results an empty slice is printed `bytes(-)` whether nil or not, a
nil pointer prints the zero value of its pointee (its type).
-/
import Iso8583.Drivers.Tree
import Iso8583.Model.Marshal

namespace Iso8583.Drivers.Marshal
open Iso8583 Iso8583.Drivers

def bytesOfAtom (s : String) : Bytes := s.toUTF8.toList

partial def goValOfTree : Tree → Option GoVal
  | .node "str" [.node h []] => (parseHexString h).map .str
  | .node "int" [.node i []] => i.toInt?.map .int
  | .node "i64" [.node i []] => i.toInt?.map .int64
  | .node "bytes" [.node h []] => (parseHexString h).map (.bytes false)
  | .node "nilbytes" [] => some (.bytes true [])
  | .node "ptr" [t] => (goValOfTree t).map (.ptr false)
  | .node "nilptr" [t] => (goValOfTree t).map (.ptr true)
  | .node "ls" [.node h []] => (parseHexString h).map (.libString false)
  | .node "nills" [] => some (.libString true [])
  | .node "ln" [.node i []] => i.toInt?.map (.libNumeric false)
  | .node "nilln" [] => some (.libNumeric true 0)
  | .node "lb" [.node h []] => (parseHexString h).map (.libBinary false)
  | .node "nillb" [] => some (.libBinary true [])
  | .node "lh" [.node h []] => (parseHexString h).map (.libHex false)
  | .node "nillh" [] => some (.libHex true [])
  | .node "sp" kids => (kids.mapM fdOfTree).map (.structPtr false)
  | .node "nilsp" kids => (kids.mapM fdOfTree).map (.structPtr true)
  | _ => none
where
  fdOfTree : Tree → Option (FieldHdr × GoVal)
    | .node "fd" [.node name [], .node idx [], .node iso [], v] =>
      match parseHexString idx, parseHexString iso, goValOfTree v with
      | some i, some s, some gv => some ({ goName := bytesOfAtom name, indexTag := i, isoTag := s }, gv)
      | _, _, _ => none
    | _ => none

def structOfTree : Tree → Option GoStruct
  | .node "st" kids => kids.mapM goValOfTree.fdOfTree
  | _ => none

partial def treeOfGoVal : GoVal → Tree
  | .str s => .node "str" [Tree.atom (toHexString s)]
  | .int i => .node "int" [Tree.atom (toString i)]
  | .int64 i => .node "i64" [Tree.atom (toString i)]
  | .bytes _ b => .node "bytes" [Tree.atom (toHexString b)]
  | .ptr true v => .node "nilptr" [treeOfGoVal v.zero]
  | .ptr false v => .node "ptr" [treeOfGoVal v]
  | .libString true _ => Tree.atom "nills"
  | .libString false s => .node "ls" [Tree.atom (toHexString s)]
  | .libNumeric true _ => Tree.atom "nilln"
  | .libNumeric false i => .node "ln" [Tree.atom (toString i)]
  | .libBinary true _ => Tree.atom "nillb"
  | .libBinary false b => .node "lb" [Tree.atom (toHexString b)]
  | .libHex true _ => Tree.atom "nillh"
  | .libHex false s => .node "lh" [Tree.atom (toHexString s)]
  | .structPtr true fields => fieldsTree "nilsp" (GoVal.zeroFields fields)
  | .structPtr false fields => fieldsTree "sp" fields
where
  fieldsTree (name : String) (fields : List (FieldHdr × GoVal)) : Tree :=
    match fields with
    | [] => Tree.atom (name ++ "()")
    | _ => .node name (fields.map fun (h, v) =>
        .node "fd" [Tree.atom (strOfTag h.goName), Tree.atom (toHexString h.indexTag),
                    Tree.atom (toHexString h.isoTag), treeOfGoVal v])

def treeOfStruct (s : GoStruct) : Tree := treeOfGoVal.fieldsTree "st" s

/-- canonical presentation of a field value: set subfields in the spec's order -/
partial def normValue : Field → Value → Value
  | .comp _ subs, .comp vals =>
    .comp ((orderBySpec subs vals).map fun (t, v) =>
      match lookup t subs with
      | some f => (t, normValue f v)
      | none => (t, v))
  | _, v => v

def normState (spec : MsgSpec) (st : MState) : Msg :=
  let m := st.toMsg
  { mti := m.mti,
    fields := (sortBy (fun a b => decide (a.1 < b.1)) m.fields).map fun (i, v) =>
      match lookupId i spec.fields with
      | some f => (i, normValue f v)
      | none => (i, v) }

def showStruct : Res GoStruct → String → String
  | .ok s, _ => "ok " ++ (treeOfStruct s).toStr
  | .err, stage => "err" ++ stage
  | .panic, _ => "panic"

partial def handleStr (toks : List String) : String :=
  match toks with
  | ["G", spec, "rtv", st] => handleStr ["G", spec, "rt", st]      -- aliases used by replay lines
  | ["G", spec, "rtwv", st] => handleStr ["G", spec, "rtw", st]
  | ["G", spec, "marshal", st] =>
    match (Tree.ofString spec).bind msgSpecOfTree, (Tree.ofString st).bind structOfTree with
    | some s, some g =>
      match marshalMsg s [] g with
      | .ok state => "ok " ++ (treeOfMsg (normState s state)).toStr
      | .err => "err"
      | .panic => "panic"
    | _, _ => "bad-op"
  | ["G", spec, "unmarshal", msg, st] =>
    match (Tree.ofString spec).bind msgSpecOfTree, (Tree.ofString msg).bind msgOfTree,
        (Tree.ofString st).bind structOfTree with
    | some s, some m, some g => showStruct (unmarshalMsg s (MState.ofMsg m) g) ""
    | _, _, _ => "bad-op"
  | ["G", spec, "rt", st] =>
    match (Tree.ofString spec).bind msgSpecOfTree, (Tree.ofString st).bind structOfTree with
    | some s, some g =>
      match marshalMsg s [] g with
      | .ok state => showStruct (unmarshalMsg s state (GoVal.zeroFields g)) " unmarshal"
      | .err => "err marshal"
      | .panic => "panic"
    | _, _ => "bad-op"
  | ["G", spec, "rtw", st] =>
    match (Tree.ofString spec).bind msgSpecOfTree, (Tree.ofString st).bind structOfTree with
    | some s, some g =>
      match marshalMsg s [] g with
      | .ok state =>
        match s.pack state.toMsg with
        | .ok bs =>
          match s.unpack bs with
          | .ok (m, _) => showStruct (unmarshalMsg s (MState.ofMsg m) (GoVal.zeroFields g)) " unmarshal"
          | .err _ => "err unpack"
          | .panic => "panic"
        | .err => "err pack"
        | .panic => "panic"
      | .err => "err marshal"
      | .panic => "panic"
    | _, _ => "bad-op"
  | _ => "bad-op"

def handle (toks : List String) : Option String :=
  match toks with
  | c :: _ => if c = "G" then some (handleStr toks) else none
  | [] => none

end Iso8583.Drivers.Marshal
