/-
Line-protocol handler for channel N (network length headers, DESIGN.md §3.3):

  N <hdr> write <int>                → ok <hex> | err | panic
  N <hdr> read <chunk|chunk|…>       → ok <length> <consumed> [<flag>] | err | panic
  N <hdr> writeseq <op>,<op>,…       → results joined by " | "; op = w<int> | f<k>:<int> (writer fails after k bytes → fail)

hdr ∈ binary2, ascii4, bcd2, vmlh; chunks are hex, `-` is an empty chunk (a `Read` that
returns 0 bytes); after the last chunk the reader is at EOF. `<flag>` (0/1) is printed
for vmlh only.
-/
import Iso8583.Model.Network

namespace Iso8583.Drivers.Net
open Iso8583

def parseChunks (s : String) : Option (List Bytes) :=
  mapM? parseHexString (s.splitOn "|")

def showRead (h : Hdr) : Res Net.RdOk → String
  | .ok r =>
    "ok " ++ toString r.length ++ " " ++ toString r.consumed ++
      (if h = .vmlh then (if r.flag then " 1" else " 0") else "")
  | .err => "err"
  | .panic => "panic"

def showWrite : Res Bytes → String
  | .ok bs => "ok " ++ toHexString bs
  | .err => "err"
  | .panic => "panic"

/-- one op of a write sequence: `w<int>` writes to a buffer, `f<k>:<int>` to a writer that fails
after `k` bytes. Every write is on a new header object and headers keep no state between
writes in the model, so each op is evaluated on its own. -/
def seqOp (hdr : Hdr) (op : String) : Option String :=
  match op.toList with
  | 'w' :: rest => (String.ofList rest).toInt?.map fun n => showWrite (Net.write hdr n)
  | 'f' :: rest =>
    match (String.ofList rest).splitOn ":" with
    | [k, n] =>
      match k.toNat?, n.toInt? with
      | some k, some n =>
        some (match Net.write hdr n with
          | .ok bs => if k < bs.length then "fail" else "ok " ++ toHexString bs
          | .err => "err"
          | .panic => "panic")
      | _, _ => none
    | _ => none
  | _ => none

def handleStr (toks : List String) : String :=
  match toks with
  | ["N", h, "writeseq", ops] =>
    match Net.ofName? h, (ops.splitOn ",").mapM (fun op => (Net.ofName? h).bind fun hdr => seqOp hdr op) with
    | some _, some rs => " | ".intercalate rs
    | _, _ => "bad-op"
  | ["N", h, "write", n] =>
    match Net.ofName? h, n.toInt? with
    | some hdr, some k => showWrite (Net.write hdr k)
    | _, _ => "bad-op"
  | ["N", h, "read", chunks] =>
    match Net.ofName? h, parseChunks chunks with
    | some hdr, some cs => showRead hdr (Net.readFrom hdr cs)
    | _, _ => "bad-op"
  | _ => "bad-op"

def handle (toks : List String) : Option String :=
  match toks with
  | c :: _ => if c = "N" then some (handleStr toks) else none
  | [] => none

end Iso8583.Drivers.Net
