/-
Line-protocol handler for channel J (JSON encoding of messages, property C12):

  J <msg-spec> marshal <msg>          → ok <json> | err
  J <msg-spec> unmarshal <json>       → ok <msg> b<0|1> | err
  J <msg-spec> rt <msg>               → ok <msg> b<0|1> <pack hex | err> | err marshal | err unmarshal
  J <msg-spec> dom <msg>              → 1 | 0      (Spec/JsonDomain.lean `msgJsonDomain`; the generator claims 1)

<json> ::= o(kv(<hex of key>,<json>),…) | o() | s(<hex of string>) | n(<int>) | x
Strings and keys are *decoded* text (the Go side parses the implementation's document with
encoding/json, preserving member order, and renders documents for `unmarshal` with
encoding/json); the model runs with `plainCodec`.  `b1` = field 1 (bitmap) is marked set.
-/
import Iso8583.Drivers.Marshal
import Iso8583.Model.Json
import Iso8583.Spec.JsonDomain

namespace Iso8583.Drivers.Json
open Iso8583 Iso8583.Drivers

def decodeLit (lit : Bytes) : Bytes := (plainCodec.parse lit).getD lit

partial def treeOfJson : Json → Tree
  | .str lit => .node "s" [Tree.atom (toHexString (decodeLit lit))]
  | .num i => .node "n" [Tree.atom (toString i)]
  | .other => Tree.atom "x"
  | .obj [] => Tree.atom "o()"
  | .obj kvs => .node "o" (kvs.map fun (k, j) => .node "kv" [Tree.atom (toHexString (decodeLit k)), treeOfJson j])

partial def jsonOfTree : Tree → Option Json
  | .node "s" [.node h []] => (parseHexString h).map fun b => Json.str (quoteRaw b)
  | .node "n" [.node i []] => i.toInt?.map Json.num
  | .node "x" [] => some .other
  | .node "o" kids =>
    (kids.mapM fun (k : Tree) => match k with
      | Tree.node "kv" [Tree.node h [], j] =>
        match parseHexString h, jsonOfTree j with
        | some key, some jj => some (quoteRaw key, jj)
        | _, _ => none
      | _ => none).map Json.obj
  | _ => none

def normJMsg (spec : MsgSpec) (j : JMsg) : Msg :=
  { mti := j.mti,
    fields := (sortBy (fun a b => decide (a.1 < b.1)) j.fields).map fun (i, v) =>
      match lookupId i spec.fields with
      | some f => (i, Marshal.normValue f v)
      | none => (i, v) }

def showJMsg (spec : MsgSpec) (j : JMsg) : String :=
  (treeOfMsg (normJMsg spec j)).toStr ++ (if j.bitmap then " b1" else " b0")

def handleStr (toks : List String) : String :=
  match toks with
  | ["J", spec, "marshal", msg] =>
    match (Tree.ofString spec).bind msgSpecOfTree, (Tree.ofString msg).bind msgOfTree with
    | some s, some m =>
      match s.marshalJSON plainCodec m with
      | .ok j => "ok " ++ (treeOfJson j).toStr
      | .err => "err"
      | .panic => "panic"
    | _, _ => "bad-op"
  | ["J", spec, "dom", msg] =>
    -- is the generated message in the domain of the JSON theorems
    match (Tree.ofString spec).bind msgSpecOfTree, (Tree.ofString msg).bind msgOfTree with
    | some s, some m => if msgJsonDomain s m then "1" else "0"
    | _, _ => "bad-op"
  | ["J", spec, "unmarshal", doc] =>
    match (Tree.ofString spec).bind msgSpecOfTree, (Tree.ofString doc).bind jsonOfTree with
    | some s, some j =>
      match s.unmarshalJSON plainCodec j with
      | .ok jm => "ok " ++ showJMsg s jm
      | .err => "err"
      | .panic => "panic"
    | _, _ => "bad-op"
  | ["J", spec, "rt", msg] =>
    match (Tree.ofString spec).bind msgSpecOfTree, (Tree.ofString msg).bind msgOfTree with
    | some s, some m =>
      match s.marshalJSON plainCodec m with
      | .ok j =>
        match s.unmarshalJSON plainCodec j with
        | .ok jm =>
          "ok " ++ showJMsg s jm ++ " " ++
            (match s.pack jm.toMsg with
             | .ok bs => toHexString bs
             | .err => "err"
             | .panic => "panic")
        | .err => "err unmarshal"
        | .panic => "panic"
      | .err => "err marshal"
      | .panic => "panic"
    | _, _ => "bad-op"
  | _ => "bad-op"

def handle (toks : List String) : Option String :=
  match toks with
  | c :: _ => if c = "J" then some (handleStr toks) else none
  | [] => none

end Iso8583.Drivers.Json
