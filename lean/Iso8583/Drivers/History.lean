/-
Protocol handler for channel H (operation histories on a message object):

  H <msgspec> <op;op;…>

  op ::= mti:<hex> | set:<id>:<hex> | mar:<id>:<value> | jd:doc(f(<id>,<value>),…) | upk:<hex>
       | unf:<id> | ups:<id>:<hex of the path below the id> | upm:<id>:<hex>:<id>:<hex>… (one UnsetFields call)
       | usb:<id>:<hex tag> (GetField(id).(*Composite).UnsetSubfield(tag)) | pack | ids | json | clone | swap
       | desc | descb

`clone` continues on the clone and keeps the original as "the other message"; `swap`
exchanges the two. After every op the result of the op and the observation of the current
message (and of the other one, if any) are printed:

  <out> I=<present ids> V=<content> P=<Pack result> J=<JSON> [|| I=… V=… P=… J=…]

The observation is taken on a copy (Go side: on a replay of the history prefix), so it
does not disturb the history.
-/
import Iso8583.Drivers.Tree
import Iso8583.Model.Object

namespace Iso8583.Drivers.History
open Iso8583 Iso8583.Drivers

def idsStr (l : List Nat) : String :=
  if l.isEmpty then "-" else ",".intercalate (l.map toString)

def resStr : Res Bytes → String
  | .ok bs => "ok:" ++ toHexString bs
  | .err => "err"
  | .panic => "panic"

def statusStr : Res Unit → String
  | .ok _ => "ok"
  | .err => "err"
  | .panic => "panic"

partial def jsonNonAscii : JVal → Bool
  | .str b => b.any (fun x => x.toNat ≥ 128)
  | .num _ => false
  | .obj kvs => kvs.any (fun p => jsonNonAscii p.2)

partial def jsonTree : JVal → Tree
  | .str b => .node "s" [Tree.atom (toHexString b)]
  | .num i => .node "n" [Tree.atom (toString i)]
  | .obj [] => Tree.atom "j()"
  | .obj kvs => .node "j" (kvs.map fun (k, v) => .node "k" [Tree.atom (toHexString k), jsonTree v])

def jsonStr : Option JVal → String
  | none => "err"
  | some j => if jsonNonAscii j then "nonascii" else (jsonTree j).toStr

def obsStr (spec : MsgSpec) (o : MsgObj) : String :=
  "I=" ++ idsStr o.sortedIds ++
  " V=" ++ (treeOfMsg (o.content spec o.sortedIds)).toStr ++
  " P=" ++ resStr (o.pack spec).2 ++
  " J=" ++ jsonStr (o.json spec).2

inductive HOp where
  | op (o : Op)
  | unsetPaths (ps : List (Nat × Bytes))
  | unsetSub (id : Nat) (tag : Tag)
  | descBitmapOnly
  | swap

def docOfTree : Tree → Option (List (Nat × Value))
  | .node "doc" kids =>
    kids.mapM (fun (k : Tree) => match k with
      | Tree.node "f" [Tree.node id [], v] =>
        match id.toNat?, valueOfTree v with
        | some i, some x => some (i, x)
        | _, _ => none
      | _ => none)
  | _ => none

def parsePairs : List String → Option (List (Nat × Bytes))
  | [] => some []
  | id :: h :: rest =>
    match id.toNat?, parseHexString h, parsePairs rest with
    | some i, some b, some more => some ((i, b) :: more)
    | _, _, _ => none
  | _ => none

def parseOp (s : String) : Option HOp :=
  match s.splitOn ":" with
  | "upm" :: pairs => (parsePairs pairs).map .unsetPaths
  | ["usb", id, h] =>
    match id.toNat?, parseHexString h with
    | some i, some b => some (.unsetSub i b)
    | _, _ => none
  | ["pack"] => some (.op .pack)
  | ["ids"] => some (.op .getFields)
  | ["json"] => some (.op .json)
  | ["clone"] => some (.op .clone)
  | ["desc"] => some (.op .describe)
  | ["descb"] => some .descBitmapOnly
  | ["swap"] => some .swap
  | ["mti", h] => (parseHexString h).map fun b => .op (.mti b)
  | ["upk", h] => (parseHexString h).map fun b => .op (.unpack b)
  | ["unf", id] => id.toNat?.map fun i => .op (.unsetField i)
  | ["set", id, h] =>
    match id.toNat?, parseHexString h with
    | some i, some b => some (.op (.setField i b))
    | _, _ => none
  | ["ups", id, h] =>
    match id.toNat?, parseHexString h with
    | some i, some b => some (.op (.unsetPath i b))
    | _, _ => none
  | ["mar", id, v] =>
    match id.toNat?, (Tree.ofString v).bind valueOfTree with
    | some i, some x => some (.op (.marshalField i x))
    | _, _ => none
  | ["jd", d] => ((Tree.ofString d).bind docOfTree).map fun doc => .op (.jsonDecode doc)
  | _ => none

def outStr (bitmapOnly : Bool) : Out → String
  | .unit => "-"
  | .status r => statusStr r
  | .ids l => "ids=" ++ idsStr l
  | .packed r => resStr r
  | .json r => jsonStr r
  | .cloned (some _) => "ok"
  | .cloned none => "err"
  | .described bm ids =>
    if bitmapOnly then "bm=" ++ toHexString bm
    else "bm=" ++ toHexString bm ++ ",F=" ++ (if ids.isEmpty then "-" else ".".intercalate (ids.map toString))

/-- run the ops, collecting one result string per op -/
def runOps (spec : MsgSpec) : List HOp → MsgObj → Option MsgObj → List String → List String
  | [], _, _, acc => acc.reverse
  | hop :: rest, cur, other, acc =>
    let (cur', other', out) : MsgObj × Option MsgObj × String :=
      match hop with
      | .swap =>
        match other with
        | some o => (o, some cur, "-")
        | none => (cur, none, "noswap")
      | .descBitmapOnly =>
        let r := cur.step spec .describe
        (r.1, other, outStr true r.2)
      | .unsetPaths ps =>
        let r := cur.unsetPaths spec ps
        (r.1, other, statusStr r.2)
      | .unsetSub id tag =>
        let r := cur.unsetSubDirect spec id tag
        (r.1, other, statusStr r.2)
      | .op op =>
        let r := cur.step spec op
        match r.2 with
        | .cloned (some c) => (c, some r.1, "ok")
        | out => (r.1, other, outStr false out)
    let line := out ++ " " ++ obsStr spec cur' ++
      (match other' with | some o => " || " ++ obsStr spec o | none => "")
    runOps spec rest cur' other' (line :: acc)

/-- the spec of the exhaustive sweeps, written `@` in protocol lines (harness/impl/history.go
`HFixedSpec`; the generator emits one line with the spec spelled out next to the same line
with `@`, so a mismatch between the two constants shows as a difference) -/
def fixedSpec : String :=
  "m(p(s,4,ascii,ascii.F,nil,d),bm(8,binary,binary.F,1),f(2,p(s,19,ascii,ascii.2,nil,d)),f(3,p(n,6,ascii,ascii.F,L30,d)),f(55,c(99,ascii.2,t(2,ascii,nil,str,0,-),sub(0a,p(s,9,ascii,ascii.2,nil,d)),sub(0b,p(n,4,ascii,ascii.1,nil,d)))),f(60,c(99,ascii.3,t(2,ascii,nil,str,0,-),sub(n1,c(60,ascii.2,t(1,ascii,nil,str,0,-),sub(x,p(s,9,ascii,ascii.1,nil,d)),sub(y,p(s,9,ascii,ascii.1,nil,d)),sub(d,c(30,ascii.2,t(1,ascii,nil,str,0,-),sub(u,p(s,9,ascii,ascii.1,nil,d)),sub(v,p(s,9,ascii,ascii.1,nil,d)))))),sub(p1,p(s,5,ascii,ascii.1,nil,d)))),f(66,p(s,5,ascii,ascii.1,nil,d)))"

def runLine (spec0 ops : String) (lastOnly : Bool) : String :=
  let spec := if spec0 = "@" then fixedSpec else spec0
  match (Tree.ofString spec).bind msgSpecOfTree, (ops.splitOn ";").mapM parseOp with
  | some s, some hops =>
    let rs := runOps s hops (s.newMsg) none []
    if lastOnly then (rs.getLast?).getD "" else " ; ".intercalate rs
  | _, _ => "bad-op"

/-- FNV-1a (64 bit) of the UTF-8 bytes, 16 hex digits: `Hh` lines report the observation
after the last op by its hash (the big exhaustive sweeps of the thorough tier; the same line
with `Hl` shows the text) -/
def fnv1a (s : String) : String :=
  let h := s.toUTF8.foldl (fun (h : UInt64) b => (h ^^^ b.toUInt64) * 0x100000001b3) 0xcbf29ce484222325
  let digits := (List.range 16).map fun i =>
    let d := ((h >>> (UInt64.ofNat (4 * (15 - i)))) &&& 0xF).toNat
    if d < 10 then Char.ofNat (48 + d) else Char.ofNat (87 + d)
  String.ofList digits

/-- an optional 4th token `#note` is a comment (used by the oracles to label replay lines) -/
def handle (toks : List String) : Option String :=
  match toks with
  | ["H", spec, ops] => some (runLine spec ops false)
  | ["Hl", spec, ops] => some (runLine spec ops true)
  | ["Hh", spec, ops] => some (let r := runLine spec ops true; if r = "bad-op" then r else "h=" ++ fnv1a r)
  | ["H", spec, ops, note] => some (if note.startsWith "#" then runLine spec ops false else "bad-op")
  | ["Hl", spec, ops, note] => some (if note.startsWith "#" then runLine spec ops true else "bad-op")
  | _ => none

end Iso8583.Drivers.History
