/-
Protocol handlers for channels F (field pack/unpack), M (message pack/unpack) and O (tag sort).
-/
import Iso8583.Drivers.Tree
import Iso8583.Spec.Coherent

namespace Iso8583.Drivers.Fields
open Iso8583 Iso8583.Drivers

def showRes : Res Bytes → String
  | .ok bs => "ok " ++ toHexString bs
  | .err => "err"
  | .panic => "panic"

def handle (toks : List String) : Option String :=
  match toks with
  | ["F", spec, "pack", val] =>
    some <| match (Tree.ofString spec).bind fieldOfTree, (Tree.ofString val).bind valueOfTree with
    | some f, some v => showRes (f.pack v)
    | _, _ => "bad-op"
  | ["F", spec, "unpack", hex] =>
    some <| match (Tree.ofString spec).bind fieldOfTree, parseHexString hex with
    | some f, some d =>
      match f.unpack d with
      | .ok (v, read) => "ok " ++ (treeOfValue v).toStr ++ " " ++ toString read
      | .err [] => "err"
      | .err p => "err " ++ pathStr p
      | .panic => "panic"
    | _, _ => "bad-op"
  | ["F", spec, "history", _, a2] =>
    -- two writes to one field object through two writers (SetValue, SetBytes, Unpack, JSON, Marshal …)
    -- with a look at the field in between: the field holds the second value, Pack encodes it
    some <| match (Tree.ofString spec).bind fieldOfTree,
        (Tree.ofString (":".intercalate ((a2.splitOn ":").drop 1))).bind valueOfTree with
    | some f, some v => showRes (f.pack v)
    | _, _ => "bad-op"
  | ["M", spec, "pack", msg] =>
    some <| match (Tree.ofString spec).bind msgSpecOfTree, (Tree.ofString msg).bind msgOfTree with
    | some s, some m => showRes (s.pack m)
    | _, _ => "bad-op"
  | ["M", spec, "unpack", hex] =>
    some <| match (Tree.ofString spec).bind msgSpecOfTree, parseHexString hex with
    | some s, some d =>
      match s.unpack d with
      | .ok (m, _) => "ok " ++ (treeOfMsg m).toStr
      | .err p => "err " ++ pathStr p
      | .panic => "panic"
    | _, _ => "bad-op"
  | ["K", "f", spec] =>
    some <| match (Tree.ofString spec).bind fieldOfTree with
    | some f => if f.coherent false then "1" else "0"
    | none => "bad-op"
  | ["K", "m", spec] =>
    some <| match (Tree.ofString spec).bind msgSpecOfTree with
    | some s => if s.coherent then "1" else "0"
    | none => "bad-op"
  | ["K", "fd", spec, val] =>
    some <| match (Tree.ofString spec).bind fieldOfTree, (Tree.ofString val).bind valueOfTree with
    | some f, some v => if f.inDomain v then "1" else "0"
    | _, _ => "bad-op"
  | ["T", "f", spec, val] =>
    -- instance of the C01 field round-trip statement, evaluated on the model
    some <| match (Tree.ofString spec).bind fieldOfTree, (Tree.ofString val).bind valueOfTree with
    | some f, some v =>
      if !(f.coherent false) || !(f.inDomain v) then "outside"
      else match f.pack v with
      | .ok bs =>
        let tail : Bytes := match f with
          | .prim _ => [0x31, 0xFF]
          | .comp _ _ => [0x31, 0xFF]
        match f.unpack (bs ++ tail) with
        | .ok (v', read) =>
          let okVal := (treeOfValue v').toStr == (treeOfValue (f.canon v)).toStr
          let okRead := read == bs.length
          let okRepack := match f.pack v' with | .ok bs' => bs' == bs | _ => false
          if okVal && okRead && okRepack then "holds"
          else "FAILS val=" ++ toString okVal ++ " read=" ++ toString okRead ++ " repack=" ++ toString okRepack
              ++ " got=" ++ (treeOfValue v').toStr ++ " want=" ++ (treeOfValue (f.canon v)).toStr
        | .err _ => "FAILS unpack-err"
        | .panic => "FAILS unpack-panic"
      | _ => "vacuous"
    | _, _ => "bad-op"
  | ["O", kind, tags] =>
    some <| match sortOfStr kind with
    | some k =>
      let ts := (tags.splitOn ",").map tagOfStr
      ",".intercalate ((sortBy k.less ts).map strOfTag)
    | none => "bad-op"
  | _ => none

end Iso8583.Drivers.Fields
