/-
Line-protocol handler for channel JS (string literals through `encoding/json`, the
`goCodec` of Model/JsonText.lean; property C12):

  JS emit <hex>                → <hex of goEmit bytes>
  JS parse <hex of a literal>  → ok <hex of the string> | err
-/
import Iso8583.Model.JsonText

namespace Iso8583.Drivers.JsonText
open Iso8583

def handle (toks : List String) : Option String :=
  match toks with
  | ["JS", "emit", h] =>
    match parseHexString h with
    | some s => some (toHexString (goCodec.emit s))
    | none => some "bad-op"
  | ["JS", "parse", h] =>
    match parseHexString h with
    | some lit =>
      match goCodec.parse lit with
      | some s => some ("ok " ++ toHexString s)
      | none => some "err"
    | none => some "bad-op"
  | "JS" :: _ => some "bad-op"
  | _ => none

end Iso8583.Drivers.JsonText
